"""RSA reference: PKCS #1 v2.2 (RFC 8017) primitives, encodings and key checks.

Pure Python, standard library only (hashlib) plus the sibling reference
modules ``nt`` and ``der``.  Written from RFC 8017:

  i2osp / os2ip                 section 4
  rsaep / rsadp / rsasp1 / rsavp1   section 5
  eme_oaep_encode / decode      section 7.1.1 step 2 / 7.1.2 step 3
  eme_pkcs1_v15_encode / decode section 7.2.1 step 2 / 7.2.2 step 3
  emsa_pss_encode / verify      section 9.1.1 / 9.1.2 (starting from mHash)
  emsa_pkcs1_v15_encode         section 9.2 (starting from the digest)
  mgf1                          appendix B.2.1

Hash functions are named with hashlib names: md5, sha1, sha224, sha256,
sha384, sha512, sha512_224, sha512_256, sha3_224, sha3_256, sha3_384,
sha3_512, ripemd160 (DigestInfo only needs the OID, not hashlib support).
"""

import hashlib

from . import der
from . import nt

__all__ = [
    "i2osp", "os2ip", "rsaep", "rsadp", "rsasp1", "rsavp1", "mgf1",
    "HASH_OID", "hash_len", "digest_info", "emsa_pkcs1_v15_encode",
    "emsa_pss_encode", "emsa_pss_verify", "emsa_pss_verify_ex",
    "eme_oaep_encode", "eme_oaep_decode", "eme_oaep_decode_ex",
    "eme_pkcs1_v15_encode", "eme_pkcs1_v15_decode", "rsa_check_key",
]

# Object identifiers: RFC 8017 appendix B.1 / A.2.4, NIST CSOR
# (2.16.840.1.101.3.4.2.x), RSADSI digestAlgorithm (1.2.840.113549.2.x),
# OIW (1.3.14.3.2.26), TeleTrusT (1.3.36.3.2.1).
HASH_OID = {
    "md2": "1.2.840.113549.2.2",
    "md4": "1.2.840.113549.2.4",
    "md5": "1.2.840.113549.2.5",
    "sha1": "1.3.14.3.2.26",
    "sha256": "2.16.840.1.101.3.4.2.1",
    "sha384": "2.16.840.1.101.3.4.2.2",
    "sha512": "2.16.840.1.101.3.4.2.3",
    "sha224": "2.16.840.1.101.3.4.2.4",
    "sha512_224": "2.16.840.1.101.3.4.2.5",
    "sha512_256": "2.16.840.1.101.3.4.2.6",
    "sha3_224": "2.16.840.1.101.3.4.2.7",
    "sha3_256": "2.16.840.1.101.3.4.2.8",
    "sha3_384": "2.16.840.1.101.3.4.2.9",
    "sha3_512": "2.16.840.1.101.3.4.2.10",
    "ripemd160": "1.3.36.3.2.1",
}

_HASH_LEN = {
    "md2": 16, "md4": 16, "md5": 16, "sha1": 20, "ripemd160": 20,
    "sha224": 28, "sha256": 32, "sha384": 48, "sha512": 64,
    "sha512_224": 28, "sha512_256": 32,
    "sha3_224": 28, "sha3_256": 32, "sha3_384": 48, "sha3_512": 64,
}


def _norm(name):
    """hashlib-style name; also accepts 'SHA-256', 'SHA-512/256', 'SHA3-256',
    'RIPEMD-160' spellings."""
    s = name.lower().replace("-", "_").replace("/", "_")
    if s.startswith("sha_"):
        s = "sha" + s[4:]
    return {"ripemd_160": "ripemd160"}.get(s, s)


def hash_len(hashname):
    return _HASH_LEN[_norm(hashname)]


def _hash(hashname, data):
    return hashlib.new(_norm(hashname), data).digest()


# ------------------------------------------------------------ primitives

def i2osp(x, length):
    if x < 0:
        raise ValueError("negative integer")
    if x >= 256 ** length:
        raise ValueError("integer too large")
    return x.to_bytes(length, "big")


def os2ip(octets):
    return int.from_bytes(bytes(octets), "big")


def rsaep(n, e, m):
    if not 0 <= m < n:
        raise ValueError("message representative out of range")
    return pow(m, e, n)


def rsadp(n, d, c):
    if not 0 <= c < n:
        raise ValueError("ciphertext representative out of range")
    return pow(c, d, n)


def rsasp1(n, d, m):
    if not 0 <= m < n:
        raise ValueError("message representative out of range")
    return pow(m, d, n)


def rsavp1(n, e, s):
    if not 0 <= s < n:
        raise ValueError("signature representative out of range")
    return pow(s, e, n)


def mgf1(seed, length, hashname):
    """RFC 8017 B.2.1."""
    hlen = hash_len(hashname)
    if length > (1 << 32) * hlen:
        raise ValueError("mask too long")
    t = b""
    counter = 0
    while len(t) < length:
        t += _hash(hashname, bytes(seed) + i2osp(counter, 4))
        counter += 1
    return t[:length]


def _xor(a, b):
    assert len(a) == len(b)
    return bytes(x ^ y for x, y in zip(a, b))


# ------------------------------------------------------------ EMSA-PKCS1-v1_5

def digest_info(hash_or_oid, digest, with_null=True):
    """DER DigestInfo ::= SEQUENCE { AlgorithmIdentifier, OCTET STRING }.

    hash_or_oid: hashlib-style name, or a dotted OID string, or a tuple
    (oid, digest_len).  with_null=False omits the NULL parameters (the
    alternative encoding RFC 8017 A.2.4 / 9.2 note tells verifiers about).
    """
    if isinstance(hash_or_oid, tuple):
        oid, hlen = hash_or_oid
    elif _norm(hash_or_oid) in HASH_OID:
        oid, hlen = HASH_OID[_norm(hash_or_oid)], _HASH_LEN[_norm(hash_or_oid)]
    else:
        oid, hlen = hash_or_oid, None
    if hlen is not None and len(digest) != hlen:
        raise ValueError("digest length %d does not match hash (%d)" % (len(digest), hlen))
    alg = [der.encode_oid(oid)]
    if with_null:
        alg.append(der.encode_null())
    return der.encode_sequence([der.encode_sequence(alg), der.encode_octet_string(digest)])


def emsa_pkcs1_v15_encode(hash_or_oid, digest, em_len, with_null=True):
    """RFC 8017 9.2 steps 2-6: EM = 00 || 01 || FF..FF || 00 || DigestInfo."""
    t = digest_info(hash_or_oid, digest, with_null)
    if em_len < len(t) + 11:
        raise ValueError("message too long: intended encoded message length too short")
    ps = b"\xff" * (em_len - len(t) - 3)
    return b"\x00\x01" + ps + b"\x00" + t


# ------------------------------------------------------------ EMSA-PSS

def emsa_pss_encode(mhash, em_bits, salt, hashname, mgf_hashname=None):
    """RFC 8017 9.1.1 steps 3-13 (mHash and salt supplied by the caller)."""
    mgf_hashname = mgf_hashname or hashname
    hlen = hash_len(hashname)
    mhash = bytes(mhash)
    salt = bytes(salt)
    if len(mhash) != hlen:
        raise ValueError("mHash length does not match hash")
    em_len = (em_bits + 7) // 8
    slen = len(salt)
    if em_len < hlen + slen + 2:                              # step 3
        raise ValueError("encoding error")
    m_prime = bytes(8) + mhash + salt                         # step 5
    h = _hash(hashname, m_prime)                              # step 6
    ps = bytes(em_len - slen - hlen - 2)                      # step 7
    db = ps + b"\x01" + salt                                  # step 8
    db_mask = mgf1(h, em_len - hlen - 1, mgf_hashname)        # step 9
    masked_db = bytearray(_xor(db, db_mask))                  # step 10
    zero_bits = 8 * em_len - em_bits
    masked_db[0] &= 0xFF >> zero_bits                         # step 11
    return bytes(masked_db) + h + b"\xbc"                     # step 12


def emsa_pss_verify_ex(mhash, em, em_bits, slen, hashname, mgf_hashname=None):
    """RFC 8017 9.1.2 steps 3-14.  Returns the list of failed checks
    (empty = consistent).  All checks are evaluated where possible."""
    mgf_hashname = mgf_hashname or hashname
    hlen = hash_len(hashname)
    mhash = bytes(mhash)
    em = bytes(em)
    fails = []
    if len(mhash) != hlen:
        fails.append("mhash_len")
    em_len = (em_bits + 7) // 8
    if len(em) != em_len:
        fails.append("em_len")
        return fails
    if em_len < hlen + slen + 2:                              # step 3
        fails.append("em_too_short")
        return fails
    if em[-1] != 0xBC:                                        # step 4
        fails.append("trailer")
    masked_db = em[:em_len - hlen - 1]                        # step 5
    h = em[em_len - hlen - 1:-1]
    zero_bits = 8 * em_len - em_bits
    if masked_db[0] >> (8 - zero_bits):                       # step 6
        fails.append("leftmost_bits")
    db_mask = mgf1(h, em_len - hlen - 1, mgf_hashname)        # step 7
    db = bytearray(_xor(masked_db, db_mask))                  # step 8
    db[0] &= 0xFF >> zero_bits                                # step 9
    pad_len = em_len - hlen - slen - 2
    if any(db[:pad_len]):                                     # step 10
        fails.append("ps_nonzero")
    if db[pad_len] != 0x01:
        fails.append("separator")
    salt = bytes(db[len(db) - slen:]) if slen else b""        # step 11
    m_prime = bytes(8) + mhash + salt                         # step 12
    if _hash(hashname, m_prime) != h:                         # steps 13-14
        fails.append("hash_mismatch")
    return fails


def emsa_pss_verify(mhash, em, em_bits, slen, hashname, mgf_hashname=None):
    return not emsa_pss_verify_ex(mhash, em, em_bits, slen, hashname, mgf_hashname)


# ------------------------------------------------------------ EME-OAEP

def eme_oaep_encode(msg, k, seed, label=b"", hashname="sha1", mgf_hashname=None):
    """RFC 8017 7.1.1 step 1b + step 2 -> EM of k octets."""
    mgf_hashname = mgf_hashname or hashname
    hlen = hash_len(hashname)
    msg = bytes(msg)
    seed = bytes(seed)
    if len(seed) != hlen:
        raise ValueError("seed must be hLen octets")
    if len(msg) > k - 2 * hlen - 2:
        raise ValueError("message too long")
    lhash = _hash(hashname, bytes(label))
    ps = bytes(k - len(msg) - 2 * hlen - 2)
    db = lhash + ps + b"\x01" + msg
    masked_db = _xor(db, mgf1(seed, k - hlen - 1, mgf_hashname))
    masked_seed = _xor(seed, mgf1(masked_db, hlen, mgf_hashname))
    return b"\x00" + masked_seed + masked_db


def eme_oaep_decode_ex(em, k, label=b"", hashname="sha1", mgf_hashname=None):
    """RFC 8017 7.1.2 step 1c + step 3.  Returns (msg or None, fails)."""
    mgf_hashname = mgf_hashname or hashname
    hlen = hash_len(hashname)
    em = bytes(em)
    if k < 2 * hlen + 2:
        return None, ["k_too_small"]
    if len(em) != k:
        return None, ["em_len"]
    fails = []
    lhash = _hash(hashname, bytes(label))
    y = em[0]
    masked_seed = em[1:1 + hlen]
    masked_db = em[1 + hlen:]
    seed = _xor(masked_seed, mgf1(masked_db, hlen, mgf_hashname))
    db = _xor(masked_db, mgf1(seed, k - hlen - 1, mgf_hashname))
    if y != 0:
        fails.append("y_nonzero")
    if db[:hlen] != lhash:
        fails.append("lhash_mismatch")
    rest = db[hlen:]
    i = 0
    while i < len(rest) and rest[i] == 0:
        i += 1
    msg = None
    if i == len(rest):
        fails.append("no_separator")
    elif rest[i] != 0x01:
        fails.append("ps_nonzero")
    else:
        msg = rest[i + 1:]
    if fails:
        return None, fails
    return msg, []


def eme_oaep_decode(em, k, label=b"", hashname="sha1", mgf_hashname=None):
    msg, fails = eme_oaep_decode_ex(em, k, label, hashname, mgf_hashname)
    if fails:
        raise ValueError("decryption error")
    return msg


# ------------------------------------------------------------ EME-PKCS1-v1_5

def eme_pkcs1_v15_encode(msg, k, ps_nonzero_bytes):
    """RFC 8017 7.2.1 step 2: EM = 00 || 02 || PS || 00 || M, PS supplied."""
    msg = bytes(msg)
    ps = bytes(ps_nonzero_bytes)
    if len(msg) > k - 11:
        raise ValueError("message too long")
    if len(ps) != k - len(msg) - 3:
        raise ValueError("PS must have k - mLen - 3 octets")
    if 0 in ps:
        raise ValueError("PS must consist of non-zero octets")
    return b"\x00\x02" + ps + b"\x00" + msg


def eme_pkcs1_v15_decode(em):
    """RFC 8017 7.2.2 step 3 -> message, or None for "decryption error"."""
    em = bytes(em)
    if len(em) < 11:
        return None
    if em[0] != 0x00 or em[1] != 0x02:
        return None
    sep = em.find(b"\x00", 2)
    if sep < 0:
        return None
    if sep - 2 < 8:
        return None
    return em[sep + 1:]


# ------------------------------------------------------------ key consistency

def rsa_check_key(n, e, d=None, p=None, q=None, u=None, dp=None, dq=None, qinv=None):
    """Violated invariants of an RSA key (empty list = consistent).

    RFC 8017 section 3: n = p*q with p, q distinct odd primes; 3 <= e <= n-1
    with gcd(e, lambda(n)) = 1, lambda(n) = lcm(p-1, q-1); 0 < d < n with
    e*d == 1 (mod lambda(n)); dP, dQ positive, < p resp. q, with
    e*dP == 1 (mod p-1), e*dQ == 1 (mod q-1); qInv positive, < p, with
    q*qInv == 1 (mod p).
    ``u`` follows pycryptodome's documented convention (RsaKey.u / construct):
    u = p^{-1} mod q, i.e. p*u == 1 (mod q) -- NOT the PKCS#1 coefficient,
    which is ``qinv``.
    Without p and q only range/parity conditions (and, when d is given, the
    necessary condition a^(e*d) == a mod n for a few bases) can be checked.
    """
    bad = []
    if n < 1:
        return ["n_not_positive"]
    if not 3 <= e <= n - 1:
        bad.append("e_range")
    if e % 2 == 0:
        bad.append("e_even")
    if n % 2 == 0:
        bad.append("n_even")
    if d is not None and not 0 < d < n:
        bad.append("d_range")
    if (p is None) != (q is None):
        bad.append("only_one_factor")
        return bad
    if p is None:
        if d is not None and n > 3:
            for a in (2, 3, 5, 7, 11):
                if pow(a % n, e * d, n) != a % n:
                    bad.append("ed_not_inverse_on_base_%d" % a)
                    break
        for name, val in (("u", u), ("dp", dp), ("dq", dq), ("qinv", qinv)):
            if val is not None:
                bad.append("%s_without_factors" % name)
        return bad
    if p < 2 or q < 2:
        bad.append("factor_range")
        return bad
    if p * q != n:
        bad.append("n_ne_pq")
    if not nt.is_prime(p):
        bad.append("p_not_prime")
    if not nt.is_prime(q):
        bad.append("q_not_prime")
    if p == q:
        bad.append("p_eq_q")
    if p % 2 == 0 or q % 2 == 0:
        bad.append("factor_even")
    lam = nt.lcm(p - 1, q - 1)
    if nt.gcd(e, lam) != 1:
        bad.append("e_not_coprime_lambda")
    if d is not None and (e * d - 1) % lam != 0:
        bad.append("ed_ne_1_mod_lambda")
    if u is not None:
        if not 0 < u < q:
            bad.append("u_range")
        if (p * u - 1) % q != 0:
            bad.append("u_ne_pinv_mod_q")
    if qinv is not None:
        if not 0 < qinv < p:
            bad.append("qinv_range")
        if (q * qinv - 1) % p != 0:
            bad.append("qinv_ne_qinv_mod_p")
    if dp is not None:
        if not 0 < dp < p:
            bad.append("dp_range")
        if (e * dp - 1) % (p - 1) != 0:
            bad.append("e_dp_ne_1_mod_p1")
    if dq is not None:
        if not 0 < dq < q:
            bad.append("dq_range")
        if (e * dq - 1) % (q - 1) != 0:
            bad.append("e_dq_ne_1_mod_q1")
    return bad


# ------------------------------------------------------------ selftest

# RFC 8017 section 9.2 note 1: DER prefixes of DigestInfo (hash value follows)
_RFC8017_PREFIX = {
    "md2": "3020300c06082a864886f70d020205000410",
    "md5": "3020300c06082a864886f70d020505000410",
    "sha1": "3021300906052b0e03021a05000414",
    "sha224": "302d300d06096086480165030402040500041c",
    "sha256": "3031300d060960864801650304020105000420",
    "sha384": "3041300d060960864801650304020205000430",
    "sha512": "3051300d060960864801650304020305000440",
    "sha512_224": "302d300d06096086480165030402050500041c",
    "sha512_256": "3031300d060960864801650304020605000420",
}


def selftest():
    h = bytes.fromhex
    assert i2osp(0, 0) == b"" and i2osp(65537, 4) == h("00010001")
    assert os2ip(h("00010001")) == 65537 and os2ip(b"") == 0
    for bad in ((256, 1), (-1, 2)):
        try:
            i2osp(*bad)
            raise AssertionError(bad)
        except ValueError:
            pass
    # MGF1: counter/truncation structure
    assert mgf1(b"foo", 3, "sha1") == h("1ac907")
    assert mgf1(b"foo", 5, "sha1") == h("1ac9075cd4")
    assert mgf1(b"bar", 5, "sha1") == h("bc0c655e01")
    assert mgf1(b"bar", 50, "sha1") == h(
        "bc0c655e016bc2931d85a2e675181adcef7f581f76df2739da74faac41627be2"
        "f7f415c89e983fd0ce80ced9878641cb4876")
    assert mgf1(b"bar", 50, "sha256") == h(
        "382576a7841021cc28fc4c0948753fb8312090cea942ea4c4e735d10dc724b15"
        "5f9f6069f289d61daca0cb814502ef04eae1")
    assert mgf1(b"x", 0, "sha256") == b""
    assert mgf1(b"s", 70, "sha256") == (hashlib.sha256(b"s\0\0\0\0").digest()
                                        + hashlib.sha256(b"s\0\0\0\1").digest()
                                        + hashlib.sha256(b"s\0\0\0\2").digest())[:70]
    # DigestInfo prefixes, RFC 8017 9.2 note 1
    for name, pre in _RFC8017_PREFIX.items():
        hl = hash_len(name)
        dg = bytes(range(hl))
        assert digest_info(name, dg) == h(pre) + dg, name
        di = der.read_digest_info(digest_info(name, dg))
        assert di["algorithm"] == HASH_OID[name] and di["digest"] == dg
    assert digest_info("sha3_256", bytes(32)) == \
        h("3031300d060960864801650304020805000420") + bytes(32)
    assert digest_info("sha3_512", bytes(64))[:19] == h("3051300d060960864801650304020a05000440")
    assert digest_info("ripemd160", bytes(20))[:15] == h("3021300906052b2403020105000414")
    assert digest_info("sha256", bytes(32), with_null=False) == \
        h("302f300b0609608648016503040201" "0420") + bytes(32)
    assert digest_info("SHA-256", bytes(32)) == digest_info("2.16.840.1.101.3.4.2.1", bytes(32))
    em = emsa_pkcs1_v15_encode("sha256", bytes(32), 64)
    assert em == b"\x00\x01" + b"\xff" * 10 + b"\x00" + digest_info("sha256", bytes(32))
    assert len(emsa_pkcs1_v15_encode("sha256", bytes(32), 62)) == 62      # PS = 8 octets
    try:
        emsa_pkcs1_v15_encode("sha256", bytes(32), 61)
        raise AssertionError("short em_len accepted")
    except ValueError as e:
        assert "message too long" in str(e)
    # PSS round trips and every negative branch
    mh = hashlib.sha256(b"msg").digest()
    for em_bits in (1023, 1024, 1025, 2047, 528, 529, 530):
        for slen in (0, 1, 20, 32):
            if (em_bits + 7) // 8 < 32 + slen + 2:
                continue
            salt = bytes(range(1, slen + 1))
            em = emsa_pss_encode(mh, em_bits, salt, "sha256")
            assert len(em) == (em_bits + 7) // 8 and em[-1] == 0xBC
            assert em[0] >> (8 - (8 * len(em) - em_bits)) == 0
            assert emsa_pss_verify(mh, em, em_bits, slen, "sha256")
            assert emsa_pss_verify(mh, emsa_pss_encode(mh, em_bits, salt, "sha256", "sha1"),
                                   em_bits, slen, "sha256", "sha1")
            assert not emsa_pss_verify(mh, em, em_bits, slen, "sha256", "sha1")
            assert not emsa_pss_verify(hashlib.sha256(b"x").digest(), em, em_bits, slen, "sha256")
            assert "hash_mismatch" in emsa_pss_verify_ex(mh, em, em_bits, slen + 1, "sha256") or \
                "em_too_short" in emsa_pss_verify_ex(mh, em, em_bits, slen + 1, "sha256")
            for i in range(len(em)):
                t = bytearray(em)
                t[i] ^= 0x01
                assert not emsa_pss_verify(mh, bytes(t), em_bits, slen, "sha256"), (em_bits, slen, i)
            assert emsa_pss_verify_ex(mh, em[:-1] + b"\xbd", em_bits, slen, "sha256") == ["trailer"]
            if em_bits % 8:
                t = bytearray(em)
                t[0] |= 0x80
                assert emsa_pss_verify_ex(mh, bytes(t), em_bits, slen, "sha256") == ["leftmost_bits"]
            assert emsa_pss_verify_ex(mh, em + b"\x00", em_bits, slen, "sha256") == ["em_len"]
    em_len = 32 + 4 + 2
    em = emsa_pss_encode(mh, 8 * em_len, b"abcd", "sha256")          # minimal: PS empty
    assert emsa_pss_verify(mh, em, 8 * em_len, 4, "sha256")
    assert emsa_pss_verify_ex(mh, em, 8 * em_len, 5, "sha256") == ["em_too_short"]
    try:
        emsa_pss_encode(mh, 8 * em_len - 8, b"abcd", "sha256")
        raise AssertionError("pss encode: short em accepted")
    except ValueError:
        pass
    # a salt of the wrong length shows up as separator / PS failure
    em = emsa_pss_encode(mh, 1023, b"12345678", "sha256")
    f = emsa_pss_verify_ex(mh, em, 1023, 7, "sha256")
    assert "ps_nonzero" in f and "hash_mismatch" in f, f
    f = emsa_pss_verify_ex(mh, em, 1023, 9, "sha256")
    assert "separator" in f and "hash_mismatch" in f, f
    # OAEP
    for hn, k in (("sha1", 128), ("sha256", 128), ("sha1", 42), ("sha256", 66)):
        hl = hash_len(hn)
        seed = bytes(range(100, 100 + hl))
        for mlen in sorted(set([0, 1, k - 2 * hl - 3, k - 2 * hl - 2])):
            if not 0 <= mlen <= k - 2 * hl - 2:
                continue
            msg = bytes((7 * i + 1) & 0xFF for i in range(mlen))
            for label in (b"", b"label"):
                em = eme_oaep_encode(msg, k, seed, label, hn)
                assert len(em) == k and em[0] == 0
                assert eme_oaep_decode(em, k, label, hn) == msg
                m2, f = eme_oaep_decode_ex(em, k, label + b"x", hn)
                assert m2 is None and f == ["lhash_mismatch"], f
                m2, f = eme_oaep_decode_ex(b"\x01" + em[1:], k, label, hn)
                assert m2 is None and f == ["y_nonzero"], f
                m2, f = eme_oaep_decode_ex(em, k, label, hn, "md5")
                assert m2 is None and f
                assert eme_oaep_decode_ex(em + b"\0", k, label, hn)[1] == ["em_len"]
        try:
            eme_oaep_encode(bytes(k - 2 * hl - 1), k, seed, b"", hn)
            raise AssertionError("oaep: long message accepted")
        except ValueError as e:
            assert "message too long" in str(e)

    def forge(db, k, hn, seed):
        masked_db = _xor(db, mgf1(seed, k - hash_len(hn) - 1, hn))
        masked_seed = _xor(seed, mgf1(masked_db, hash_len(hn), hn))
        return b"\x00" + masked_seed + masked_db

    lh = hashlib.sha1(b"").digest()
    k = 64
    seed = bytes(20)
    assert eme_oaep_decode(forge(lh + bytes(22) + b"\x01", k, "sha1", seed), k) == b""
    assert eme_oaep_decode(forge(lh + b"\x01" + b"\x00" * 22, k, "sha1", seed), k) == b"\x00" * 22
    assert eme_oaep_decode_ex(forge(lh + bytes(23), k, "sha1", seed), k) == (None, ["no_separator"])
    assert eme_oaep_decode_ex(forge(lh + bytes(5) + b"\x02" + bytes(17), k, "sha1", seed), k) == \
        (None, ["ps_nonzero"])
    assert eme_oaep_decode_ex(forge(lh + b"\x02\x01" + bytes(21), k, "sha1", seed), k) == \
        (None, ["ps_nonzero"])
    assert eme_oaep_decode_ex(bytes(41), 41)[1] == ["k_too_small"]
    try:
        eme_oaep_decode(forge(lh + bytes(23), k, "sha1", seed), k)
        raise AssertionError("oaep: no separator accepted")
    except ValueError as e:
        assert str(e) == "decryption error"
    # PKCS#1 v1.5 encryption padding
    em = eme_pkcs1_v15_encode(b"hello", 32, b"\xaa" * 24)
    assert em == b"\x00\x02" + b"\xaa" * 24 + b"\x00hello" and eme_pkcs1_v15_decode(em) == b"hello"
    assert eme_pkcs1_v15_decode(eme_pkcs1_v15_encode(b"", 11, b"\x01" * 8)) == b""
    assert eme_pkcs1_v15_decode(b"\x00\x02" + b"\x01" * 8 + b"\x00" + b"\x00m") == b"\x00m"
    assert eme_pkcs1_v15_decode(b"\x00\x02" + b"\x01" * 7 + b"\x00" + b"mm") is None    # PS = 7
    assert eme_pkcs1_v15_decode(b"\x00\x02" + b"\x01" * 20) is None                     # no separator
    assert eme_pkcs1_v15_decode(b"\x01\x02" + b"\x01" * 8 + b"\x00m") is None
    assert eme_pkcs1_v15_decode(b"\x00\x01" + b"\xff" * 8 + b"\x00m") is None
    assert eme_pkcs1_v15_decode(b"\x00\x02\x00" + b"\x01" * 8 + b"\x00m") is None       # PS = 0
    assert eme_pkcs1_v15_decode(b"\x00\x02" + b"\x01" * 8) is None                      # k < 11
    assert eme_pkcs1_v15_decode(b"") is None
    for bad in ((b"m", 32, b"\xaa" * 27), (b"m", 32, b"\xaa" * 27 + b"\x00"), (bytes(22), 32, b"\x01" * 7)):
        try:
            eme_pkcs1_v15_encode(*bad)
            raise AssertionError(bad)
        except ValueError:
            pass
    # key checks + textbook sign/verify with a tiny and a medium key
    p, q, e = 61, 53, 17
    n, lam = p * q, nt.lcm(p - 1, q - 1)
    d = nt.inverse(e, lam)
    assert d == 413
    good = dict(n=n, e=e, d=d, p=p, q=q, u=nt.inverse(p, q), dp=d % (p - 1), dq=d % (q - 1),
                qinv=nt.inverse(q, p))
    assert rsa_check_key(**good) == []
    assert rsa_check_key(n, e) == [] and rsa_check_key(n, e, d) == []
    assert rsa_check_key(n, e, nt.inverse(e, (p - 1) * (q - 1)), p, q) == []     # d mod phi also valid
    assert rsa_check_key(n, e, d + 1) == ["ed_not_inverse_on_base_2"]
    assert rsa_check_key(**dict(good, u=nt.inverse(q, p))) == ["u_ne_pinv_mod_q"]
    assert rsa_check_key(**dict(good, qinv=nt.inverse(p, q))) == ["qinv_ne_qinv_mod_p"]
    assert rsa_check_key(**dict(good, d=d + 2)) == ["ed_ne_1_mod_lambda"]
    assert rsa_check_key(**dict(good, d=d + lam * 10)) == ["d_range"]
    assert rsa_check_key(**dict(good, dp=good["dp"] + 1)) == ["e_dp_ne_1_mod_p1"]
    assert rsa_check_key(**dict(good, dq=good["dq"] + q - 1)) == ["dq_range"]
    assert rsa_check_key(**dict(good, n=n + 2)) == ["n_ne_pq"]
    assert "q_not_prime" in rsa_check_key(61 * 55, e, None, 61, 55)
    assert "e_not_coprime_lambda" in rsa_check_key(n, 3, None, p, q)     # 3 | 60
    assert "e_even" in rsa_check_key(n, 4) and "e_range" in rsa_check_key(n, 1)
    assert "e_range" in rsa_check_key(n, n)
    assert "p_eq_q" in rsa_check_key(61 * 61, 7, None, 61, 61)
    assert rsa_check_key(n, e, d, p) == ["only_one_factor"]
    p = nt.next_prime(2**255 + 12345)
    q = nt.next_prime(2**256 - 98765)
    while nt.gcd(65537, (p - 1) * (q - 1)) != 1:
        q = nt.next_prime(q)
    n = p * q
    d = nt.inverse(65537, nt.lcm(p - 1, q - 1))
    assert rsa_check_key(n, 65537, d, p, q, nt.inverse(p, q)) == []
    k = (n.bit_length() + 7) // 8
    em = emsa_pkcs1_v15_encode("sha256", hashlib.sha256(b"abc").digest(), k)
    s = rsasp1(n, d, os2ip(em))
    assert i2osp(rsavp1(n, 65537, s), k) == em
    em = emsa_pss_encode(mh, n.bit_length() - 1, b"salt", "sha256")
    s = rsasp1(n, d, os2ip(em))
    assert emsa_pss_verify(mh, i2osp(rsavp1(n, 65537, s), len(em)), n.bit_length() - 1, 4, "sha256")
    c = rsaep(n, 65537, os2ip(eme_oaep_encode(b"secret", k, bytes(20))))
    assert eme_oaep_decode(i2osp(rsadp(n, d, c), k), k) == b"secret"
    for f in (rsaep, rsadp, rsasp1, rsavp1):
        try:
            f(n, 3, n)
            raise AssertionError("representative == n accepted")
        except ValueError:
            pass
    return True


if __name__ == "__main__":
    selftest()
    print("OK")
