"""Reference Salsa20, ChaCha20 (djb and IETF layouts), HChaCha20, XChaCha20 and
Poly1305.  Pure Python, standard library only.

Sources: D. J. Bernstein, "Salsa20 specification" and "ChaCha, a variant of
Salsa20"; RFC 8439 (obsoletes RFC 7539); draft-irtf-cfrg-xchacha-03.

Conventions
-----------
* All words are little-endian.
* ``salsa20_block(key, nonce8, counter)``: counter is the 64-bit block counter
  (words 8, 9 of the Salsa20 input matrix).
* ``chacha20_block(key32, counter, nonce)``:
    - 12-byte nonce (RFC 8439): word 12 = 32-bit counter, words 13..15 = nonce;
    - 8-byte nonce (original djb): words 12, 13 = 64-bit counter (lo, hi),
      words 14, 15 = nonce.
  A counter outside the available width raises OverflowError.
* ``chacha20_stream(key32, nonce, nbytes, pos=0)`` returns keystream bytes
  [pos, pos + nbytes).  Block index = byte offset // 64, starting from block
  counter 0.  A 24-byte nonce selects XChaCha20: subkey = HChaCha20(key,
  nonce[:16]), then IETF ChaCha20 with nonce 00 00 00 00 || nonce[16:24].
  If any needed block index is >= 2^32 (12/24-byte nonce) or >= 2^64 (8-byte
  nonce) OverflowError is raised.  With nbytes == 0 no block is needed, hence
  no error whatever pos is.
* ``salsa20_stream`` works the same way with a 2^64 block limit.
* ``poly1305(key32, msg)``: r = key[:16] (clamped here), s = key[16:].
"""

import struct

__all__ = ["salsa20_block", "salsa20_stream", "chacha20_block", "hchacha20",
           "chacha20_stream", "poly1305", "poly1305_rs", "selftest"]

_M = 0xFFFFFFFF

_SIGMA = struct.unpack("<4I", b"expand 32-byte k")
_TAU = struct.unpack("<4I", b"expand 16-byte k")

_pack16 = struct.Struct("<16I").pack
_unpack8 = struct.Struct("<8I").unpack
_unpack4 = struct.Struct("<4I").unpack


# --------------------------------------------------------------------------
# Round functions ("SIMD within a big integer").
#
# Four 32-bit words are kept in one Python integer, word i in bits
# [64*i, 64*i + 32) ("lane" i); the upper 32 bits of every 64-bit lane are
# spare room, so that a lane-wise addition (33 bits) or left shift by < 32
# never spills into the next lane.  `& _LM` clears the spare bits again.
# One quarter-round written on such integers performs the four quarter-rounds
# of a column (or diagonal / row) round at once.  selftest() checks these
# cores against the word-by-word spec-literal versions at the end of the file.
# --------------------------------------------------------------------------

_LM = _M | (_M << 64) | (_M << 128) | (_M << 192)


def _chacha_core(x0, x1, x2, x3, x4, x5, x6, x7, x8, x9, x10, x11, x12, x13, x14, x15):
    """20 ChaCha rounds (no feed-forward).  16 words in, 16 words out."""
    M = _LM
    a = x0 | (x1 << 64) | (x2 << 128) | (x3 << 192)          # rows of the matrix
    b = x4 | (x5 << 64) | (x6 << 128) | (x7 << 192)
    c = x8 | (x9 << 64) | (x10 << 128) | (x11 << 192)
    d = x12 | (x13 << 64) | (x14 << 128) | (x15 << 192)
    for _ in range(10):
        # column round: QR(x0,x4,x8,x12) QR(x1,x5,x9,x13) QR(x2,x6,x10,x14) QR(x3,x7,x11,x15)
        a = (a + b) & M; d ^= a; d = ((d << 16) | (d >> 16)) & M
        c = (c + d) & M; b ^= c; b = ((b << 12) | (b >> 20)) & M
        a = (a + b) & M; d ^= a; d = ((d << 8) | (d >> 24)) & M
        c = (c + d) & M; b ^= c; b = ((b << 7) | (b >> 25)) & M
        # bring the diagonals into columns: lane i <- lane i+1 / i+2 / i+3
        b = (b >> 64) | ((b << 192) & M)
        c = (c >> 128) | ((c << 128) & M)
        d = (d >> 192) | ((d << 64) & M)
        # diagonal round: QR(x0,x5,x10,x15) QR(x1,x6,x11,x12) QR(x2,x7,x8,x13) QR(x3,x4,x9,x14)
        a = (a + b) & M; d ^= a; d = ((d << 16) | (d >> 16)) & M
        c = (c + d) & M; b ^= c; b = ((b << 12) | (b >> 20)) & M
        a = (a + b) & M; d ^= a; d = ((d << 8) | (d >> 24)) & M
        c = (c + d) & M; b ^= c; b = ((b << 7) | (b >> 25)) & M
        # and back
        b = (b >> 192) | ((b << 64) & M)
        c = (c >> 128) | ((c << 128) & M)
        d = (d >> 64) | ((d << 192) & M)
    m = _M
    return (a & m, (a >> 64) & m, (a >> 128) & m, a >> 192,
            b & m, (b >> 64) & m, (b >> 128) & m, b >> 192,
            c & m, (c >> 64) & m, (c >> 128) & m, c >> 192,
            d & m, (d >> 64) & m, (d >> 128) & m, d >> 192)


def _salsa_core(x0, x1, x2, x3, x4, x5, x6, x7, x8, x9, x10, x11, x12, x13, x14, x15):
    """20 Salsa20 rounds (no feed-forward).  16 words in, 16 words out."""
    M = _LM
    # the four (wrapped) diagonals of the matrix
    a = x0 | (x5 << 64) | (x10 << 128) | (x15 << 192)
    b = x4 | (x9 << 64) | (x14 << 128) | (x3 << 192)
    c = x8 | (x13 << 64) | (x2 << 128) | (x7 << 192)
    d = x12 | (x1 << 64) | (x6 << 128) | (x11 << 192)
    for _ in range(10):
        # columnround: QR(x0,x4,x8,x12) QR(x5,x9,x13,x1) QR(x10,x14,x2,x6) QR(x15,x3,x7,x11)
        # i.e. lane-wise quarterround(a, b, c, d)
        t = (a + d) & M; b ^= ((t << 7) | (t >> 25)) & M
        t = (b + a) & M; c ^= ((t << 9) | (t >> 23)) & M
        t = (c + b) & M; d ^= ((t << 13) | (t >> 19)) & M
        t = (d + c) & M; a ^= ((t << 18) | (t >> 14)) & M
        # rowround: QR(x0,x1,x2,x3) QR(x5,x6,x7,x4) QR(x10,x11,x8,x9) QR(x15,x12,x13,x14)
        # i.e. lane-wise quarterround(a, d', c', b') with rotated lanes
        d = (d >> 64) | ((d << 192) & M)        # (x1, x6, x11, x12)
        c = (c >> 128) | ((c << 128) & M)       # (x2, x7, x8, x13)
        b = (b >> 192) | ((b << 64) & M)        # (x3, x4, x9, x14)
        t = (a + b) & M; d ^= ((t << 7) | (t >> 25)) & M
        t = (d + a) & M; c ^= ((t << 9) | (t >> 23)) & M
        t = (c + d) & M; b ^= ((t << 13) | (t >> 19)) & M
        t = (b + c) & M; a ^= ((t << 18) | (t >> 14)) & M
        # back to the diagonal layout
        d = (d >> 192) | ((d << 64) & M)
        c = (c >> 128) | ((c << 128) & M)
        b = (b >> 64) | ((b << 192) & M)
    m = _M
    return (a & m, (d >> 64) & m, (c >> 128) & m, b >> 192,
            b & m, (a >> 64) & m, (d >> 128) & m, c >> 192,
            c & m, (b >> 64) & m, (a >> 128) & m, d >> 192,
            d & m, (c >> 64) & m, (b >> 128) & m, a >> 192)


# --------------------------------------------------------------------------
# Salsa20
# --------------------------------------------------------------------------

def _salsa_input(key, nonce8):
    key = bytes(key)
    nonce8 = bytes(nonce8)
    if len(nonce8) != 8:
        raise ValueError("Salsa20 nonce must be 8 bytes")
    if len(key) == 32:
        k = _unpack8(key)
        c = _SIGMA
    elif len(key) == 16:
        k = _unpack4(key) * 2
        c = _TAU
    else:
        raise ValueError("Salsa20 key must be 16 or 32 bytes")
    n0, n1 = struct.unpack("<2I", nonce8)
    return k, c, n0, n1


def _salsa_block_words(k, c, n0, n1, counter):
    st = (c[0], k[0], k[1], k[2], k[3], c[1], n0, n1,
          counter & _M, counter >> 32, c[2], k[4], k[5], k[6], k[7], c[3])
    w = _salsa_core(*st)
    return _pack16(*[(a + b) & _M for a, b in zip(st, w)])


def salsa20_block(key, nonce8, counter):
    if not 0 <= counter < (1 << 64):
        raise OverflowError("Salsa20 block counter out of range")
    k, c, n0, n1 = _salsa_input(key, nonce8)
    return _salsa_block_words(k, c, n0, n1, counter)


def salsa20_stream(key, nonce8, nbytes, pos=0):
    if nbytes < 0 or pos < 0:
        raise ValueError("nbytes and pos must be non-negative")
    k, c, n0, n1 = _salsa_input(key, nonce8)
    if nbytes == 0:
        return b""
    first = pos // 64
    last = (pos + nbytes - 1) // 64
    if last >= (1 << 64):
        raise OverflowError("Salsa20 block counter overflow")
    buf = b"".join(_salsa_block_words(k, c, n0, n1, i) for i in range(first, last + 1))
    off = pos - 64 * first
    return buf[off:off + nbytes]


# --------------------------------------------------------------------------
# ChaCha20
# --------------------------------------------------------------------------

def _chacha_block_words(k, w12, w13, w14, w15):
    c = _SIGMA
    st = (c[0], c[1], c[2], c[3], k[0], k[1], k[2], k[3],
          k[4], k[5], k[6], k[7], w12, w13, w14, w15)
    w = _chacha_core(*st)
    return _pack16(*[(a + b) & _M for a, b in zip(st, w)])


def _chacha_key(key32):
    key32 = bytes(key32)
    if len(key32) != 32:
        raise ValueError("ChaCha20 key must be 32 bytes")
    return _unpack8(key32)


def chacha20_block(key32, counter, nonce):
    k = _chacha_key(key32)
    nonce = bytes(nonce)
    if len(nonce) == 12:
        if not 0 <= counter < (1 << 32):
            raise OverflowError("ChaCha20 (IETF) block counter out of range")
        n = struct.unpack("<3I", nonce)
        return _chacha_block_words(k, counter, n[0], n[1], n[2])
    if len(nonce) == 8:
        if not 0 <= counter < (1 << 64):
            raise OverflowError("ChaCha20 (djb) block counter out of range")
        n = struct.unpack("<2I", nonce)
        return _chacha_block_words(k, counter & _M, counter >> 32, n[0], n[1])
    raise ValueError("ChaCha20 nonce must be 8 or 12 bytes")


def hchacha20(key32, nonce16):
    k = _chacha_key(key32)
    nonce16 = bytes(nonce16)
    if len(nonce16) != 16:
        raise ValueError("HChaCha20 nonce must be 16 bytes")
    n = _unpack4(nonce16)
    c = _SIGMA
    w = _chacha_core(c[0], c[1], c[2], c[3], k[0], k[1], k[2], k[3],
                     k[4], k[5], k[6], k[7], n[0], n[1], n[2], n[3])
    return struct.pack("<8I", w[0], w[1], w[2], w[3], w[12], w[13], w[14], w[15])


def chacha20_stream(key32, nonce, nbytes, pos=0):
    if nbytes < 0 or pos < 0:
        raise ValueError("nbytes and pos must be non-negative")
    nonce = bytes(nonce)
    k = _chacha_key(key32)
    if len(nonce) == 24:
        k = _unpack8(hchacha20(key32, nonce[:16]))
        nonce = b"\0\0\0\0" + nonce[16:24]
    if len(nonce) == 12:
        limit = 1 << 32
        n = struct.unpack("<3I", nonce)

        def block(i):
            return _chacha_block_words(k, i, n[0], n[1], n[2])
    elif len(nonce) == 8:
        limit = 1 << 64
        n = struct.unpack("<2I", nonce)

        def block(i):
            return _chacha_block_words(k, i & _M, i >> 32, n[0], n[1])
    else:
        raise ValueError("ChaCha20 nonce must be 8, 12 or 24 bytes")
    if nbytes == 0:
        return b""
    first = pos // 64
    last = (pos + nbytes - 1) // 64
    if last >= limit:
        raise OverflowError("ChaCha20 block counter overflow")
    buf = b"".join(block(i) for i in range(first, last + 1))
    off = pos - 64 * first
    return buf[off:off + nbytes]


# --------------------------------------------------------------------------
# Poly1305
# --------------------------------------------------------------------------

_P1305 = (1 << 130) - 5
_CLAMP = 0x0FFFFFFC0FFFFFFC0FFFFFFC0FFFFFFF


def poly1305_rs(r16, s16, msg):
    r16 = bytes(r16)
    s16 = bytes(s16)
    msg = bytes(msg)
    if len(r16) != 16 or len(s16) != 16:
        raise ValueError("r and s must be 16 bytes each")
    r = int.from_bytes(r16, "little") & _CLAMP
    s = int.from_bytes(s16, "little")
    acc = 0
    for i in range(0, len(msg), 16):
        blk = msg[i:i + 16]
        n = int.from_bytes(blk, "little") + (1 << (8 * len(blk)))
        acc = ((acc + n) * r) % _P1305
    return ((acc + s) & ((1 << 128) - 1)).to_bytes(16, "little")


def poly1305(key32, msg):
    key32 = bytes(key32)
    if len(key32) != 32:
        raise ValueError("Poly1305 key must be 32 bytes")
    return poly1305_rs(key32[:16], key32[16:], msg)


# --------------------------------------------------------------------------
# Spec-literal (slow) cores for selftest
# --------------------------------------------------------------------------

def _rotl(v, n):
    return ((v << n) & _M) | (v >> (32 - n))


def _slow_chacha_qr(x, a, b, c, d):
    x[a] = (x[a] + x[b]) & _M; x[d] = _rotl(x[d] ^ x[a], 16)
    x[c] = (x[c] + x[d]) & _M; x[b] = _rotl(x[b] ^ x[c], 12)
    x[a] = (x[a] + x[b]) & _M; x[d] = _rotl(x[d] ^ x[a], 8)
    x[c] = (x[c] + x[d]) & _M; x[b] = _rotl(x[b] ^ x[c], 7)


def _slow_chacha_core(st):
    x = list(st)
    for _ in range(10):
        _slow_chacha_qr(x, 0, 4, 8, 12); _slow_chacha_qr(x, 1, 5, 9, 13)
        _slow_chacha_qr(x, 2, 6, 10, 14); _slow_chacha_qr(x, 3, 7, 11, 15)
        _slow_chacha_qr(x, 0, 5, 10, 15); _slow_chacha_qr(x, 1, 6, 11, 12)
        _slow_chacha_qr(x, 2, 7, 8, 13); _slow_chacha_qr(x, 3, 4, 9, 14)
    return tuple(x)


def _slow_salsa_qr(y0, y1, y2, y3):
    z1 = y1 ^ _rotl((y0 + y3) & _M, 7)
    z2 = y2 ^ _rotl((z1 + y0) & _M, 9)
    z3 = y3 ^ _rotl((z2 + z1) & _M, 13)
    z0 = y0 ^ _rotl((z3 + z2) & _M, 18)
    return z0, z1, z2, z3


def _slow_salsa_core(st):
    x = list(st)
    for _ in range(10):
        # columnround
        x[0], x[4], x[8], x[12] = _slow_salsa_qr(x[0], x[4], x[8], x[12])
        x[5], x[9], x[13], x[1] = _slow_salsa_qr(x[5], x[9], x[13], x[1])
        x[10], x[14], x[2], x[6] = _slow_salsa_qr(x[10], x[14], x[2], x[6])
        x[15], x[3], x[7], x[11] = _slow_salsa_qr(x[15], x[3], x[7], x[11])
        # rowround
        x[0], x[1], x[2], x[3] = _slow_salsa_qr(x[0], x[1], x[2], x[3])
        x[5], x[6], x[7], x[4] = _slow_salsa_qr(x[5], x[6], x[7], x[4])
        x[10], x[11], x[8], x[9] = _slow_salsa_qr(x[10], x[11], x[8], x[9])
        x[15], x[12], x[13], x[14] = _slow_salsa_qr(x[15], x[12], x[13], x[14])
    return tuple(x)


def selftest():
    h = bytes.fromhex
    import hashlib

    # --- quarter rounds -------------------------------------------------
    # Salsa20 spec, section 3
    assert _slow_salsa_qr(1, 0, 0, 0) == (0x08008145, 0x00000080, 0x00010200, 0x20500000)
    assert _slow_salsa_qr(0, 0, 0, 0) == (0, 0, 0, 0)
    # RFC 8439 section 2.1.1
    x = [0x11111111, 0x01020304, 0x9B8D6F43, 0x01234567]
    _slow_chacha_qr(x, 0, 1, 2, 3)
    assert x == [0xEA2A92F4, 0xCB1CF8CE, 0x4581472E, 0x5881C4BB]
    # generated cores == spec-literal cores
    for i in range(20):
        st = struct.unpack("<16I", hashlib.sha512(b"core-%d" % i).digest())
        assert _chacha_core(*st) == _slow_chacha_core(st)
        assert _salsa_core(*st) == _slow_salsa_core(st)

    # --- Salsa20 --------------------------------------------------------
    # Salsa20 spec, section 9 examples: k0 = 1..16, k1 = 201..216, n = 101..116
    k0 = bytes(range(1, 17))
    k1 = bytes(range(201, 217))
    n = bytes(range(101, 117))
    ctr = int.from_bytes(n[8:], "little")
    want32 = bytes([
        69, 37, 68, 39, 41, 15, 107, 193, 255, 139, 122, 6, 170, 233, 217, 98,
        89, 144, 182, 106, 21, 51, 200, 65, 239, 49, 222, 34, 215, 114, 40, 126,
        104, 197, 7, 225, 197, 153, 31, 2, 102, 78, 76, 176, 84, 245, 246, 184,
        177, 160, 133, 130, 6, 72, 149, 119, 192, 195, 132, 236, 234, 103, 246, 74])
    want16 = bytes([
        39, 173, 46, 248, 30, 200, 82, 17, 48, 67, 254, 239, 37, 18, 13, 247,
        241, 200, 61, 144, 10, 55, 50, 185, 6, 47, 246, 253, 143, 86, 187, 225,
        134, 85, 110, 246, 161, 163, 43, 235, 231, 94, 171, 51, 145, 214, 112, 29,
        14, 232, 5, 16, 151, 140, 183, 141, 171, 9, 122, 181, 104, 182, 177, 193])
    assert salsa20_block(k0 + k1, n[:8], ctr) == want32
    assert salsa20_block(k0, n[:8], ctr) == want16
    # ECRYPT Salsa20/20 verified test vectors, set 1 vector 0
    assert salsa20_stream(h("80" + "00" * 15), bytes(8), 64) == h(
        "4DFA5E481DA23EA09A31022050859936DA52FCEE218005164F267CB65F5CFD7F"
        "2B4F97E0FF16924A52DF269515110A07F9E460BC65EF95DA58F740B7D1DBB0AA")
    assert salsa20_stream(h("80" + "00" * 31), bytes(8), 64) == h(
        "E3BE8FDD8BECA2E3EA8EF9475B29A6E7003951E1097A5C38D23B7A5FAD9F6844"
        "B22C97559E2723C7CBBD3FE4FC8D9A0744652A83E72A9C461876AF4D7EF1A117")

    # --- ChaCha20 -------------------------------------------------------
    key = bytes(range(32))
    # RFC 8439 section 2.3.2
    assert chacha20_block(key, 1, h("000000090000004a00000000")) == h(
        "10f1e7e4d13b5915500fdd1fa32071c4c7d1f4c733c068030422aa9ac3d46c4e"
        "d2826446079faa0914c2d705d98b02a2b5129cd1de164eb9cbd083e8a2503c4e")
    # all-zero key / nonce / counter (RFC 8439 A.1 #1, same for djb layout)
    z = h("76b8e0ada0f13d90405d6ae55386bd28bdd219b8a08ded1aa836efcc8b770dc7"
          "da41597c5157488d7724e03fb8d84a376a43b8f41518a11cc387b669b2ee6586")
    assert chacha20_block(bytes(32), 0, bytes(12)) == z
    assert chacha20_block(bytes(32), 0, bytes(8)) == z
    # RFC 8439 section 2.4.2: encryption of the "sunscreen" text, counter 1
    pt = (b"Ladies and Gentlemen of the class of '99: If I could offer you "
          b"only one tip for the future, sunscreen would be it.")
    ks = chacha20_stream(key, h("000000000000004a00000000"), len(pt), 64)
    ct = bytes(a ^ b for a, b in zip(pt, ks))
    assert ct[:32] == h("6e2e359a2568f98041ba0728dd0d6981e97e7aec1d4360c20a27afccfd9fae0b")
    assert ct[-10:] == h("b40b8eedf2785e42874d")
    # djb vs IETF layouts agree when the high counter word / first nonce word match
    n8 = h("0102030405060708")
    assert chacha20_block(key, (7 << 32) | 5, n8) == \
        chacha20_block(key, 5, struct.pack("<I", 7) + n8)

    # HChaCha20, draft-irtf-cfrg-xchacha section 2.2.1
    assert hchacha20(key, h("000000090000004a0000000031415927")) == h(
        "82413b4227b27bfed30e42508a877d73a0f9e4d58a74a853c12ec41326d3ecdc")
    # XChaCha20 construction
    k2 = bytes(range(0x80, 0xA0))
    n24 = h("404142434445464748494a4b4c4d4e4f5051525354555658")
    sub = hchacha20(k2, n24[:16])
    assert chacha20_stream(k2, n24, 200, 30) == \
        chacha20_stream(sub, b"\0\0\0\0" + n24[16:], 200, 30)
    # draft-irtf-cfrg-xchacha A.3.2: plaintext "The dhole (pronounced "dole") ..."
    dh = b'The dhole (pronounced "dole") is '
    ks0 = chacha20_stream(k2, n24, 32)           # A.3.2 with block counter 0
    assert bytes(a ^ b for a, b in zip(dh, ks0)) == h(
        "4559abba4e48c16102e8bb2c05e6947f50a786de162f9b0b7e592a9b53d0d4e9")
    ks1 = chacha20_stream(k2, n24, 32, 64)       # A.3.2.1, block counter 1
    assert bytes(a ^ b for a, b in zip(dh, ks1)) == h(
        "7d0a2e6b7f7c65a236542630294e063b7ab9b555a5d5149aa21e4ae1e4fbce87")
    # draft-irtf-cfrg-xchacha A.3.1 (AEAD example): Poly1305 one-time key is
    # keystream block 0, ciphertext uses the keystream from block 1
    n57 = h("404142434445464748494a4b4c4d4e4f5051525354555657")
    assert chacha20_stream(k2, n57, 32) == h(
        "7b191f80f361f099094f6f4b8fb97df847cc6873a8f2b190dd73807183f907d5")
    ks1 = chacha20_stream(k2, n57, 32, 64)
    assert bytes(a ^ b for a, b in zip(pt, ks1)) == h(
        "bd6d179d3e83d43b9576579493c0e939572a1700252bfaccbed2902c21396cbb")

    # stream slicing / overflow behaviour
    full = chacha20_stream(key, bytes(12), 300)
    assert full[:64] == chacha20_block(key, 0, bytes(12))
    assert full[64:128] == chacha20_block(key, 1, bytes(12))
    for p, ln in ((0, 1), (1, 62), (63, 2), (64, 64), (65, 200), (299, 1)):
        assert chacha20_stream(key, bytes(12), ln, p) == full[p:p + ln]
    sfull = salsa20_stream(key, bytes(8), 300)
    assert sfull[64:128] == salsa20_block(key, bytes(8), 1)
    for p, ln in ((0, 1), (1, 62), (63, 2), (64, 64), (65, 200), (299, 1)):
        assert salsa20_stream(key, bytes(8), ln, p) == sfull[p:p + ln]
    top32 = (1 << 32) * 64
    assert chacha20_stream(key, bytes(12), 64, top32 - 64) == \
        chacha20_block(key, 0xFFFFFFFF, bytes(12))
    assert chacha20_stream(key, bytes(12), 0, top32) == b""
    for nlen in (12, 24):
        try:
            chacha20_stream(key, bytes(nlen), 2, top32 - 1)
        except OverflowError:
            pass
        else:
            raise AssertionError("32-bit counter overflow not detected")
    assert chacha20_stream(key, bytes(8), 2, top32 - 1) == (
        chacha20_block(key, 0xFFFFFFFF, bytes(8))[-1:] +
        chacha20_block(key, 1 << 32, bytes(8))[:1])
    top64 = (1 << 64) * 64
    for fn in (lambda: chacha20_stream(key, bytes(8), 2, top64 - 1),
               lambda: salsa20_stream(key, bytes(8), 2, top64 - 1),
               lambda: chacha20_block(key, 1 << 32, bytes(12)),
               lambda: chacha20_block(key, 1 << 64, bytes(8)),
               lambda: salsa20_block(key, bytes(8), 1 << 64)):
        try:
            fn()
        except OverflowError:
            pass
        else:
            raise AssertionError("counter overflow not detected")

    # --- Poly1305 -------------------------------------------------------
    # RFC 8439 section 2.5.2
    pk = h("85d6be7857556d337f4452fe42d506a80103808afb0db2fd4abff6af4149f51b")
    assert poly1305(pk, b"Cryptographic Forum Research Group") == \
        h("a8061dc1305136c6c22b8baf0c0127a9")
    # RFC 8439 A.3 #1, #5, #6
    assert poly1305(bytes(32), bytes(64)) == bytes(16)
    r2 = h("02" + "00" * 15)
    assert poly1305_rs(r2, bytes(16), h("ff" * 16)) == h("03" + "00" * 15)
    assert poly1305_rs(r2, h("ff" * 16), h("02" + "00" * 15)) == h("03" + "00" * 15)
    # clamping happens inside
    assert poly1305_rs(h("ff" * 16), bytes(16), b"abc") == \
        poly1305_rs(h("ffffff0ffcffff0ffcffff0ffcffff0f"), bytes(16), b"abc")
    # RFC 8439 section 2.6.2: Poly1305 key generation
    k3 = bytes(range(0x80, 0xA0))
    assert chacha20_block(k3, 0, h("000000000001020304050607"))[:32] == h(
        "8ad5a08b905f81cc815040274ab29471a833b637e3fd0da508dbb8e2fdd1a646")


if __name__ == "__main__":
    selftest()
    print("OK")
