"""GF(2^128) arithmetic and Shamir secret sharing (reference, pure Python).

Field: GF(2)[x] / (x^128 + x^7 + x^2 + x + 1)   (the polynomial pycryptodome's
Doc/src/protocol/ss.rst documents: "1 + x + x^2 + x^7 + x^128", also the one
used by the ``ssss`` tool for 128-bit security).

Element representation: Python int in [0, 2^128); bit i of the integer is the
coefficient of x^i.  Byte encoding: 16 bytes, big endian (most significant
byte first), so the byte string b"\\x00"*15 + b"\\x02" is the element x.
(NB this is NOT the bit-reflected convention GCM uses for GHASH.)

Shamir (1979), as documented for Crypto.Protocol.SecretSharing:
    q(X) = a_0 + a_1 X + ... + a_{k-1} X^{k-1},  a_0 = secret
    share i (i = 1..n) = q(i), the index i taken as the field element whose
    integer representation is i.
With ssss=True the polynomial of the ``ssss`` tool (B. Poettering, ssss.c,
horner(): y = x; for i = t-1..0: y += coeff[i]; if i: y *= x) is used instead:
    r(X) = q(X) + X^k
and combine() subtracts X_i^k from every share before interpolating (k being
the number of shares presented).
"""

__all__ = ["MASK", "POLY", "gf_add", "gf_mul", "gf_pow", "gf_inv", "gf_div",
           "to_bytes", "from_bytes", "poly_eval", "shamir_split", "shamir_combine"]

MASK = (1 << 128) - 1
POLY = (1 << 128) | 0x87          # x^128 + x^7 + x^2 + x + 1


def to_bytes(a):
    if not 0 <= a <= MASK:
        raise ValueError("element out of range")
    return a.to_bytes(16, "big")


def from_bytes(b):
    b = bytes(b)
    if len(b) != 16:
        raise ValueError("field elements are encoded on 16 bytes")
    return int.from_bytes(b, "big")


def _check(a):
    if not 0 <= a <= MASK:
        raise ValueError("element out of range")


def gf_add(a, b):
    return a ^ b


def _clmul(a, b):
    r = 0
    while b:
        if b & 1:
            r ^= a
        a <<= 1
        b >>= 1
    return r


def _reduce(r):
    for i in range(r.bit_length() - 1, 127, -1):
        if (r >> i) & 1:
            r ^= POLY << (i - 128)
    return r


def gf_mul(a, b):
    """Schoolbook carry-less product followed by long division by POLY."""
    _check(a)
    _check(b)
    return _reduce(_clmul(a, b))


def gf_pow(a, e):
    _check(a)
    if e < 0:
        return gf_pow(gf_inv(a), -e)
    r = 1
    while e:
        if e & 1:
            r = gf_mul(r, a)
        a = gf_mul(a, a)
        e >>= 1
    return r


def _deg(a):
    return a.bit_length() - 1


def gf_inv(a):
    """Inverse by the extended Euclidean algorithm in GF(2)[x]."""
    _check(a)
    if a == 0:
        raise ValueError("zero has no inverse")
    r0, r1 = POLY, a
    s0, s1 = 0, 1
    while r1 != 1:
        # polynomial division r0 = qt * r1 + rem
        qt = 0
        rem = r0
        d1 = _deg(r1)
        while rem and _deg(rem) >= d1:
            sh = _deg(rem) - d1
            qt ^= 1 << sh
            rem ^= r1 << sh
        r0, r1 = r1, rem
        s0, s1 = s1, s0 ^ _clmul(qt, s1)
        if r1 == 0:
            raise ArithmeticError("POLY is not irreducible?")
    return _reduce(s1)


def gf_div(a, b):
    return gf_mul(a, gf_inv(b))


def poly_eval(coeffs, x):
    """sum coeffs[i] * x^i (coeffs[0] = constant term), plain power sum."""
    acc = 0
    xp = 1
    for c in coeffs:
        acc ^= gf_mul(c, xp)
        xp = gf_mul(xp, x)
    return acc


def shamir_split(k, n, secret16, coeffs, ssss=False):
    """-> [(1, share_1), ..., (n, share_n)], shares as 16-byte strings.

    coeffs = [a_1, ..., a_{k-1}] (ints).  share_i = f(i) with
    f(X) = secret + a_1 X + ... + a_{k-1} X^{k-1}  (+ X^k when ssss=True).
    """
    if k < 1 or n < 1:
        raise ValueError("k and n must be positive")
    if n > MASK:
        raise ValueError("too many shares")
    coeffs = list(coeffs)
    if len(coeffs) != k - 1:
        raise ValueError("need exactly k-1 coefficients")
    poly = [from_bytes(secret16)] + coeffs
    for c in poly:
        _check(c)
    if ssss:
        poly.append(1)
    return [(i, to_bytes(poly_eval(poly, i))) for i in range(1, n + 1)]


def shamir_combine(shares, ssss=False):
    """Lagrange interpolation at X = 0 over the shares presented.
    ValueError on duplicate or out-of-range (0, >= 2^128) indexes."""
    shares = list(shares)
    if not shares:
        raise ValueError("no shares")
    k = len(shares)
    xs = []
    ys = []
    for idx, sh in shares:
        idx = int(idx)
        if not 1 <= idx <= MASK:
            raise ValueError("share index out of range")
        if idx in xs:
            raise ValueError("duplicate share index")
        y = from_bytes(sh)
        if ssss:
            y ^= gf_pow(idx, k)
        xs.append(idx)
        ys.append(y)
    secret = 0
    for j in range(k):
        num = 1
        den = 1
        for m in range(k):
            if m != j:
                num = gf_mul(num, xs[m])
                den = gf_mul(den, xs[m] ^ xs[j])
        secret ^= gf_mul(ys[j], gf_div(num, den))
    return to_bytes(secret)


# ------------------------------------------------------------------ selftest

def _lcg(seed):
    """Deterministic 128-bit value stream for the selftest (not crypto)."""
    s = seed
    while True:
        s = (s * 6364136223846793005 + 1442695040888963407) & ((1 << 64) - 1)
        t = s
        s = (s * 6364136223846793005 + 1442695040888963407) & ((1 << 64) - 1)
        yield (t << 64) | s


def selftest():
    import itertools
    # reduction identities
    assert gf_mul(1 << 127, 2) == 0x87                      # x^128 = x^7+x^2+x+1
    assert gf_mul(1 << 127, 4) == 0x87 << 1
    assert gf_mul(1 << 127, 1 << 127) == _reduce(1 << 254)
    assert gf_mul(1 << 64, 1 << 64) == 0x87
    assert gf_mul(0, 12345) == 0 and gf_mul(1, 12345) == 12345
    assert gf_mul(3, 3) == 5 and gf_mul(7, 7) == 21         # squaring spreads bits
    assert gf_mul(MASK, 1) == MASK
    assert to_bytes(2) == bytes(15) + b"\x02" and from_bytes(b"\x80" + bytes(15)) == 1 << 127
    # POLY irreducible (Rabin): x^(2^128) == x, gcd(x^(2^64) - x, POLY) == 1
    t = 2
    for i in range(128):
        t = gf_mul(t, t)
        if i == 63:
            a, b = POLY, t ^ 2
            while b:
                while a and _deg(a) >= _deg(b):
                    a ^= b << (_deg(a) - _deg(b))
                a, b = b, a
            assert a == 1
    assert t == 2
    # field axioms on pseudo-random elements
    g = _lcg(1)
    for _ in range(60):
        a, b, c = next(g), next(g), next(g)
        assert gf_mul(a, b) == gf_mul(b, a)
        assert gf_mul(gf_mul(a, b), c) == gf_mul(a, gf_mul(b, c))
        assert gf_mul(a, b ^ c) == gf_mul(a, b) ^ gf_mul(a, c)
        ia = gf_inv(a)
        assert gf_mul(a, ia) == 1
        assert ia == gf_pow(a, (1 << 128) - 2)              # Fermat inverse agrees with Euclid
        assert gf_div(gf_mul(a, b), b) == a
        assert gf_pow(a, 5) == gf_mul(a, gf_mul(gf_mul(a, a), gf_mul(a, a)))
    assert gf_pow(2, 128) == 0x87 and gf_pow(12345, 0) == 1 and gf_pow(0, 0) == 1
    assert gf_pow(3, -1) == gf_inv(3)
    assert gf_inv(1) == 1
    for i in range(128):
        assert gf_mul(1 << i, gf_inv(1 << i)) == 1
    try:
        gf_inv(0)
        raise AssertionError("gf_inv(0)")
    except ValueError:
        pass
    # Shamir
    secret = bytes(range(16))
    for ssss in (False, True):
        for k, n in ((1, 1), (1, 3), (2, 2), (2, 5), (3, 5), (4, 6)):
            coeffs = list(itertools.islice(_lcg(k * 100 + n), k - 1))
            shares = shamir_split(k, n, secret, coeffs, ssss)
            assert [i for i, _ in shares] == list(range(1, n + 1))
            for sub in itertools.permutations(shares, k):
                assert shamir_combine(sub, ssss) == secret
            if k >= 2:
                # k-1 shares interpolate to something else (here: deterministic check)
                assert shamir_combine(shares[:k - 1], ssss) != secret or coeffs[-1] == 0
    # k = 2 closed forms
    a1 = 0x0123456789ABCDEF0123456789ABCDEF
    sh = shamir_split(2, 3, secret, [a1])
    s0 = from_bytes(secret)
    assert sh[0][1] == to_bytes(s0 ^ a1)
    assert sh[1][1] == to_bytes(s0 ^ gf_mul(a1, 2))
    assert sh[2][1] == to_bytes(s0 ^ gf_mul(a1, 3))
    sh = shamir_split(2, 3, secret, [a1], ssss=True)
    assert sh[0][1] == to_bytes(s0 ^ a1 ^ 1)
    assert sh[1][1] == to_bytes(s0 ^ gf_mul(a1, 2) ^ 4)
    assert sh[2][1] == to_bytes(s0 ^ gf_mul(a1, 3) ^ 5)
    # zero coefficients: every share equals the secret (non-ssss)
    assert all(s == secret for _, s in shamir_split(3, 4, secret, [0, 0]))
    for bad in ([(1, secret), (1, secret)], [(0, secret)], [(1, secret[:15])], []):
        try:
            shamir_combine(bad)
            raise AssertionError(bad)
        except ValueError:
            pass
    for bad in ((2, 3, secret, []), (2, 3, secret[:15], [1]), (0, 3, secret, [])):
        try:
            shamir_split(*bad)
            raise AssertionError(bad)
        except ValueError:
            pass
    return True


if __name__ == "__main__":
    selftest()
    print("OK")
