"""Reference Blowfish, EksBlowfish and bcrypt ($2a$), pure Python, stdlib only.

Sources
-------
* B. Schneier, "Description of a New Variable-Length Key, 64-Bit Block Cipher
  (Blowfish)", FSE 1993.
* N. Provos, D. Mazieres, "A Future-Adaptable Password Scheme", USENIX 1999,
  and the behaviour of OpenBSD's bcrypt() for the "$2a$" prefix.

The initial P-array and S-boxes are the hexadecimal digits of the fractional
part of pi.  They are COMPUTED at import time with exact integer arithmetic
(Machin's formula pi = 16 atan(1/5) - 4 atan(1/239) evaluated in fixed point
with guard bits); no table is pasted in this file.

bcrypt conventions implemented here (documented precisely on purpose):

* ``bcrypt_hash(password, cost, salt16)``:
      key = (password + b"\\0")[:72]
  i.e. the "$2a$" rule: the C string *including* its terminating NUL is the
  key, and at most 72 bytes of it are used.  A 72-byte (or longer) password
  therefore loses the NUL, and bytes from index 72 on are ignored.  NUL bytes
  inside ``password`` are not rejected, they are simply key bytes.
* ``bcrypt_raw(key, cost, salt16)`` uses ``key`` exactly as given (the caller
  appends the NUL).  Because the key is only ever consumed as a cyclic stream
  of 18 32-bit words, bytes beyond the 72nd are never read, so truncation to
  72 bytes is implicit.
* Inside the 2^cost loop the order is ExpandKey(state, 0, key) first, then
  ExpandKey(state, 0, salt).  (The pseudo-code in the USENIX paper lists them
  the other way round; every deployed implementation, starting with OpenBSD's,
  uses key-then-salt and this is what "$2a$" hashes in the wild mean.)
* The 24-byte magic "OrpheanBeholderScryDoubt" is encrypted 64 times in ECB
  mode; the result is serialised big-endian and the LAST BYTE IS DROPPED
  (23 bytes), as OpenBSD does; those 23 bytes give 31 base-64 characters.
* bcrypt's base-64 uses the alphabet "./A-Za-z0-9", the usual 3-bytes-to-4-
  characters big-endian grouping, and no padding.
"""

import base64
import struct

__all__ = ["pi_words", "Blowfish", "BlowfishState", "eks_blowfish_setup",
           "bcrypt_raw", "bcrypt_hash", "bcrypt_b64encode", "bcrypt_b64decode",
           "selftest"]

_M = 0xFFFFFFFF


# --------------------------------------------------------------------------
# Hex digits of pi
# --------------------------------------------------------------------------

def _atan_inv(x, one):
    """floor-ish one * atan(1/x) using the alternating Gregory series in
    integer arithmetic.  Absolute error < number_of_terms units."""
    x2 = x * x
    term = one // x
    total = term
    n = 3
    sign = -1
    while term:
        term //= x2
        total += sign * (term // n)
        sign = -sign
        n += 2
    return total


_pi_cache = []


def pi_words(n):
    """First n 32-bit words of the hexadecimal expansion of frac(pi):
    pi_words(1) == [0x243F6A88]."""
    global _pi_cache
    if n <= len(_pi_cache):
        return _pi_cache[:n]
    guard = 96                       # error of the series is << 2^32 units
    bits = 32 * n + guard
    one = 1 << bits
    pi = 16 * _atan_inv(5, one) - 4 * _atan_inv(239, one)
    frac = pi - 3 * one
    assert 0 < frac < one
    # make sure the guard bits are neither all-0 nor all-1 near the cut, so
    # that the (tiny) truncation error cannot have propagated into the result
    g = frac & ((1 << guard) - 1)
    assert (1 << 40) < g < (1 << guard) - (1 << 40), "pi guard bits inconclusive"
    frac >>= guard
    words = [(frac >> (32 * (n - 1 - i))) & _M for i in range(n)]
    _pi_cache = words
    return list(words)


_INIT = pi_words(18 + 4 * 256)
_P_INIT = tuple(_INIT[:18])
_S_INIT = tuple(tuple(_INIT[18 + 256 * i:18 + 256 * (i + 1)]) for i in range(4))
assert _P_INIT[0] == 0x243F6A88 and _S_INIT[3][255] == 0x3AC372E6


# --------------------------------------------------------------------------
# Core
# --------------------------------------------------------------------------

def _encipher(p, s0, s1, s2, s3, l, r):
    """16-round Blowfish on the word pair (l, r) with P-array p (18 words).
    Unrolled form of:  for i in 0..15: l ^= P[i]; r ^= F(l); swap
                       undo last swap; r ^= P[16]; l ^= P[17]"""
    l ^= p[0]
    r ^= ((((s0[l >> 24] + s1[(l >> 16) & 255]) ^ s2[(l >> 8) & 255]) + s3[l & 255]) & _M) ^ p[1]
    l ^= ((((s0[r >> 24] + s1[(r >> 16) & 255]) ^ s2[(r >> 8) & 255]) + s3[r & 255]) & _M) ^ p[2]
    r ^= ((((s0[l >> 24] + s1[(l >> 16) & 255]) ^ s2[(l >> 8) & 255]) + s3[l & 255]) & _M) ^ p[3]
    l ^= ((((s0[r >> 24] + s1[(r >> 16) & 255]) ^ s2[(r >> 8) & 255]) + s3[r & 255]) & _M) ^ p[4]
    r ^= ((((s0[l >> 24] + s1[(l >> 16) & 255]) ^ s2[(l >> 8) & 255]) + s3[l & 255]) & _M) ^ p[5]
    l ^= ((((s0[r >> 24] + s1[(r >> 16) & 255]) ^ s2[(r >> 8) & 255]) + s3[r & 255]) & _M) ^ p[6]
    r ^= ((((s0[l >> 24] + s1[(l >> 16) & 255]) ^ s2[(l >> 8) & 255]) + s3[l & 255]) & _M) ^ p[7]
    l ^= ((((s0[r >> 24] + s1[(r >> 16) & 255]) ^ s2[(r >> 8) & 255]) + s3[r & 255]) & _M) ^ p[8]
    r ^= ((((s0[l >> 24] + s1[(l >> 16) & 255]) ^ s2[(l >> 8) & 255]) + s3[l & 255]) & _M) ^ p[9]
    l ^= ((((s0[r >> 24] + s1[(r >> 16) & 255]) ^ s2[(r >> 8) & 255]) + s3[r & 255]) & _M) ^ p[10]
    r ^= ((((s0[l >> 24] + s1[(l >> 16) & 255]) ^ s2[(l >> 8) & 255]) + s3[l & 255]) & _M) ^ p[11]
    l ^= ((((s0[r >> 24] + s1[(r >> 16) & 255]) ^ s2[(r >> 8) & 255]) + s3[r & 255]) & _M) ^ p[12]
    r ^= ((((s0[l >> 24] + s1[(l >> 16) & 255]) ^ s2[(l >> 8) & 255]) + s3[l & 255]) & _M) ^ p[13]
    l ^= ((((s0[r >> 24] + s1[(r >> 16) & 255]) ^ s2[(r >> 8) & 255]) + s3[r & 255]) & _M) ^ p[14]
    r ^= ((((s0[l >> 24] + s1[(l >> 16) & 255]) ^ s2[(l >> 8) & 255]) + s3[l & 255]) & _M) ^ p[15]
    l ^= ((((s0[r >> 24] + s1[(r >> 16) & 255]) ^ s2[(r >> 8) & 255]) + s3[r & 255]) & _M) ^ p[16]
    r ^= p[17]
    return r, l


def _slow_encipher(p, s, l, r):
    """Spec-literal version (used by selftest only)."""
    for i in range(16):
        l ^= p[i]
        f = (s[0][l >> 24] + s[1][(l >> 16) & 255]) & _M
        f ^= s[2][(l >> 8) & 255]
        f = (f + s[3][l & 255]) & _M
        r ^= f
        l, r = r, l
    l, r = r, l
    r ^= p[16]
    l ^= p[17]
    return l, r


def _cyclic_words(data, count):
    """count big-endian 32-bit words read cyclically from data (len >= 1)."""
    n = len(data)
    need = 4 * count
    buf = (data * (need // n + 1))[:need]
    return struct.unpack(">%dI" % count, buf)


class BlowfishState:
    """Mutable Blowfish state: P-array (18 words) and four S-boxes."""

    def __init__(self):
        self.P = list(_P_INIT)
        self.S = [list(x) for x in _S_INIT]

    def encipher(self, l, r):
        s = self.S
        return _encipher(self.P, s[0], s[1], s[2], s[3], l, r)

    def decipher(self, l, r):
        s = self.S
        return _encipher(self.P[::-1], s[0], s[1], s[2], s[3], l, r)

    def expand_key(self, key, salt=None):
        """ExpandKey(state, salt, key) of the bcrypt paper.  salt=None is the
        all-zero salt, which makes this the ordinary Blowfish key schedule."""
        P = self.P
        S = self.S
        s0, s1, s2, s3 = S
        kw = _cyclic_words(key, 18)
        for i in range(18):
            P[i] ^= kw[i]
        l = r = 0
        if salt is None:
            for i in range(0, 18, 2):
                l, r = _encipher(P, s0, s1, s2, s3, l, r)
                P[i] = l
                P[i + 1] = r
            for box in S:
                for i in range(0, 256, 2):
                    l, r = _encipher(P, s0, s1, s2, s3, l, r)
                    box[i] = l
                    box[i + 1] = r
        else:
            if len(salt) != 16:
                raise ValueError("salt must be 16 bytes")
            sw = struct.unpack(">4I", salt)
            j = 0                       # running index into the salt words
            for i in range(0, 18, 2):
                l, r = _encipher(P, s0, s1, s2, s3, l ^ sw[j], r ^ sw[j + 1])
                j ^= 2
                P[i] = l
                P[i + 1] = r
            for box in S:
                for i in range(0, 256, 2):
                    l, r = _encipher(P, s0, s1, s2, s3, l ^ sw[j], r ^ sw[j + 1])
                    j ^= 2
                    box[i] = l
                    box[i + 1] = r


_pack2 = struct.Struct(">2I").pack
_unpack2 = struct.Struct(">2I").unpack


class Blowfish:
    block_size = 8

    def __init__(self, key):
        key = bytes(key)
        if not 4 <= len(key) <= 56:
            raise ValueError("Blowfish key must be 4..56 bytes long")
        st = BlowfishState()
        st.expand_key(key)
        self._p = tuple(st.P)
        self._pr = self._p[::-1]
        self._s0, self._s1, self._s2, self._s3 = (tuple(x) for x in st.S)

    def encrypt_block(self, b):
        if len(b) != 8:
            raise ValueError("Blowfish block must be 8 bytes")
        l, r = _unpack2(b)
        return _pack2(*_encipher(self._p, self._s0, self._s1, self._s2, self._s3, l, r))

    def decrypt_block(self, b):
        if len(b) != 8:
            raise ValueError("Blowfish block must be 8 bytes")
        l, r = _unpack2(b)
        return _pack2(*_encipher(self._pr, self._s0, self._s1, self._s2, self._s3, l, r))


# --------------------------------------------------------------------------
# EksBlowfish / bcrypt
# --------------------------------------------------------------------------

def eks_blowfish_setup(cost, salt16, key):
    """EksBlowfishSetup(cost, salt, key) -> BlowfishState.

    cost: any integer >= 0 (bcrypt itself restricts it to 4..31).
    salt16: exactly 16 bytes.  key: at least 1 byte; only the first 72 bytes
    can influence the result."""
    salt16 = bytes(salt16)
    key = bytes(key)
    if len(salt16) != 16:
        raise ValueError("salt must be 16 bytes")
    if len(key) < 1:
        raise ValueError("key must not be empty")
    if cost < 0:
        raise ValueError("cost must be >= 0")
    st = BlowfishState()
    st.expand_key(key, salt16)
    for _ in range(1 << cost):
        st.expand_key(key)
        st.expand_key(salt16)
    return st


_MAGIC = b"OrpheanBeholderScryDoubt"


def bcrypt_raw(password_with_nul, cost, salt16):
    """23 raw bytes of bcrypt output.  The key is used as given."""
    st = eks_blowfish_setup(cost, salt16, password_with_nul)
    words = list(struct.unpack(">6I", _MAGIC))
    p = st.P
    s0, s1, s2, s3 = st.S
    for _ in range(64):
        for i in (0, 2, 4):
            words[i], words[i + 1] = _encipher(p, s0, s1, s2, s3, words[i], words[i + 1])
    return struct.pack(">6I", *words)[:23]


_STD_ALPHA = b"ABCDEFGHIJKLMNOPQRSTUVWXYZabcdefghijklmnopqrstuvwxyz0123456789+/"
_BC_ALPHA = b"./ABCDEFGHIJKLMNOPQRSTUVWXYZabcdefghijklmnopqrstuvwxyz0123456789"
_TO_BC = bytes.maketrans(_STD_ALPHA, _BC_ALPHA)
_FROM_BC = bytes.maketrans(_BC_ALPHA, _STD_ALPHA)


def bcrypt_b64encode(data):
    return base64.b64encode(bytes(data)).rstrip(b"=").translate(_TO_BC)


def bcrypt_b64decode(text):
    text = bytes(text)
    if any(c not in _BC_ALPHA for c in text):
        raise ValueError("invalid bcrypt base64 character")
    std = text.translate(_FROM_BC)
    return base64.b64decode(std + b"=" * (-len(std) % 4))


def bcrypt_hash(password, cost, salt16):
    """Full 60-byte "$2a$" hash.  key = (password + b"\\0")[:72]."""
    password = bytes(password)
    salt16 = bytes(salt16)
    if not 4 <= cost <= 31:
        raise ValueError("bcrypt cost must be in 4..31")
    if len(salt16) != 16:
        raise ValueError("salt must be 16 bytes")
    key = (password + b"\0")[:72]
    raw = bcrypt_raw(key, cost, salt16)
    out = b"$2a$" + b"%02d" % cost + b"$" + bcrypt_b64encode(salt16) + bcrypt_b64encode(raw)
    assert len(out) == 60
    return out


# --------------------------------------------------------------------------

def selftest():
    h = bytes.fromhex
    # pi digits (Schneier's published constants)
    assert pi_words(4) == [0x243F6A88, 0x85A308D3, 0x13198A2E, 0x03707344]
    assert _P_INIT[17] == 0x8979FB1B
    assert _S_INIT[0][0] == 0xD1310BA6 and _S_INIT[0][255] == 0x6E85076A
    assert _S_INIT[1][0] == 0x4B7A70E9
    assert _S_INIT[2][0] == 0xE93D5A68
    assert _S_INIT[3][0] == 0x3A39CE37 and _S_INIT[3][255] == 0x3AC372E6

    # Eric Young's / Schneier's ECB vectors (key, plaintext, ciphertext)
    vectors = [
        ("0000000000000000", "0000000000000000", "4EF997456198DD78"),
        ("FFFFFFFFFFFFFFFF", "FFFFFFFFFFFFFFFF", "51866FD5B85ECB8A"),
        ("3000000000000000", "1000000000000001", "7D856F9A613063F2"),
        ("1111111111111111", "1111111111111111", "2466DD878B963C9D"),
        ("0123456789ABCDEF", "1111111111111111", "61F9C3802281B096"),
        ("FEDCBA9876543210", "0123456789ABCDEF", "0ACEAB0FC6A0A28D"),
        # set_key test, data FEDCBA9876543210, growing key
        ("F0E1D2C3B4A59687", "FEDCBA9876543210", "E87A244E2CC85E82"),
        ("F0E1D2C3B4A5968778695A4B3C2D1E0F", "FEDCBA9876543210", "93142887EE3BE15C"),
        ("F0E1D2C3B4A5968778695A4B3C2D1E0F0011223344556677",
         "FEDCBA9876543210", "05044B62FA52D080"),
    ]
    for k, p, c in vectors:
        bf = Blowfish(h(k))
        assert bf.encrypt_block(h(p)) == h(c), (k, bf.encrypt_block(h(p)).hex())
        assert bf.decrypt_block(h(c)) == h(p), k
    # Schneier, Dr. Dobb's Journal
    bf = Blowfish(b"abcdefghijklmnopqrstuvwxyz")
    assert bf.encrypt_block(b"BLOWFISH") == h("324ED0FEF413A203")
    bf = Blowfish(b"Who is John Galt?")
    assert bf.encrypt_block(h("FEDCBA9876543210")) == h("CC91732B8022F684")

    # unrolled vs spec-literal rounds
    st = BlowfishState()
    st.expand_key(b"selftest key")
    x = (0x01234567, 0x89ABCDEF)
    for _ in range(20):
        y = st.encipher(*x)
        assert y == _slow_encipher(st.P, st.S, *x)
        assert st.decipher(*y) == x
        x = y

    # ExpandKey with an all-zero salt is the plain key schedule
    a = BlowfishState(); a.expand_key(b"some key")
    b = BlowfishState(); b.expand_key(b"some key", bytes(16))
    assert a.P == b.P and a.S == b.S

    # bcrypt base64
    assert bcrypt_b64encode(bytes(16)) == b"." * 21 + b"."
    assert len(bcrypt_b64encode(bytes(23))) == 31
    assert bcrypt_b64decode(bcrypt_b64encode(bytes(range(16)))) == bytes(range(16))

    # bcrypt known answers (OpenBSD regress / John the Ripper / jBCrypt)
    long_pw = (b"0123456789abcdefghijklmnopqrstuvwxyz"
               b"ABCDEFGHIJKLMNOPQRSTUVWXYZ0123456789"
               b"chars after 72 are ignored")
    kats = [
        (b"U*U", b"$2a$05$CCCCCCCCCCCCCCCCCCCCC.E5YPO9kmyuRGyh0XouQYb4YMJKvyOeW"),
        (b"U*U*", b"$2a$05$CCCCCCCCCCCCCCCCCCCCC.VGOzA784oUp/Z0DY336zx7pLYAy0lwK"),
        (b"U*U*U", b"$2a$05$XXXXXXXXXXXXXXXXXXXXXOAcXxm9kjPGEMsLznoKqmqw7tc8WCx4a"),
        (b"", b"$2a$05$CCCCCCCCCCCCCCCCCCCCC.7uG0VCzI2bS7j6ymqJi9CdcdxiRTWNy"),
        (long_pw, b"$2a$05$abcdefghijklmnopqrstuu5s2v8.iXieOjg/.AySBTTZIIVFJeBui"),
        (b"", b"$2a$06$DCq7YPn5Rq63x1Lad4cll.TV4S6ytwfsfvkgY8jIucDrjc8deX1s."),
        (b"a", b"$2a$06$m0CrhHm10qJ3lXRY.5zDGO3rS2KdeeWLuGmsfGlMfOxih58VYVfxe"),
    ]
    for pw, want in kats:
        cost = int(want[4:6])
        salt = bcrypt_b64decode(want[7:29])
        assert len(salt) == 16
        got = bcrypt_hash(pw, cost, salt)
        assert got == want, (pw, got, want)
    # truncation semantics
    salt = bytes(range(16))
    assert bcrypt_hash(long_pw, 4, salt) == bcrypt_hash(long_pw[:72], 4, salt)
    assert bcrypt_raw(long_pw[:72], 4, salt) == bcrypt_raw(long_pw, 4, salt)
    assert bcrypt_hash(long_pw[:71], 4, salt) != bcrypt_hash(long_pw[:72], 4, salt)

    for bad in (0, 3, 57):
        try:
            Blowfish(bytes(bad))
        except ValueError:
            pass
        else:
            raise AssertionError("bad Blowfish key length accepted")


if __name__ == "__main__":
    selftest()
    print("OK")
