"""Pure-Python reference for the Keccak family.  Standard library only.

Written from the specifications:
  * FIPS 202            Keccak-p[1600, nr], sponge, SHA-3, SHAKE
  * NIST SP 800-185     cSHAKE, KMAC, TupleHash (+ the encoding helpers)
  * RFC 9861            TurboSHAKE128/256, KangarooTwelve KT128 / KT256
  * Keccak submission   "legacy" Keccak-224/256/384/512 (pad10*1 only,
                        i.e. suffix byte 0x01, capacity = 2 * digest size)

State convention: a list of 25 Python ints (64-bit lanes), lane (x, y) at
index x + 5*y, lanes little-endian in the byte string (FIPS 202 B.1).

The permutation is generated as fully unrolled source at import time from
the FIPS 202 step-mapping definitions (the rotation offsets and the round
constants are *computed* from Algorithms 2 and 5, then spot-checked in
selftest()); nothing is copied from an existing implementation.

All lengths in this module's API are in BYTES unless the name says bits.
"""

import struct

__all__ = [
    "keccak_p", "sponge", "Sponge", "sha3", "shake", "keccak_legacy",
    "left_encode", "right_encode", "encode_string", "bytepad",
    "cshake", "kmac", "tuplehash", "turboshake",
    "kangarootwelve", "kangarootwelve256", "length_encode", "selftest",
]

_MASK = 0xFFFFFFFFFFFFFFFF


# --------------------------------------------------------------------------
# Constants, computed from FIPS 202
# --------------------------------------------------------------------------

def _rho_offsets():
    """FIPS 202 Algorithm 2 (rho): offsets[x + 5*y]."""
    off = [0] * 25
    x, y = 1, 0
    for t in range(24):
        off[x + 5 * y] = ((t + 1) * (t + 2) // 2) % 64
        x, y = y, (2 * x + 3 * y) % 5
    return off


def _rc_bit(t):
    """FIPS 202 Algorithm 5: rc(t)."""
    if t % 255 == 0:
        return 1
    r = [1, 0, 0, 0, 0, 0, 0, 0]
    for _ in range(1, (t % 255) + 1):
        r = [0] + r
        r[0] ^= r[8]
        r[4] ^= r[8]
        r[5] ^= r[8]
        r[6] ^= r[8]
        r = r[:8]
    return r[0]


def _round_constants():
    """FIPS 202 Algorithm 6 (iota), for ir = 0..23 (l = 6)."""
    out = []
    for ir in range(24):
        rc = 0
        for j in range(7):
            if _rc_bit(j + 7 * ir):
                rc |= 1 << ((1 << j) - 1)
        out.append(rc)
    return tuple(out)


RHO = tuple(_rho_offsets())
RC = _round_constants()
# Keccak-p[1600, nr] = the last nr rounds of Keccak-f[1600] (FIPS 202 3.3/3.4)
_RC_BY_ROUNDS = {nr: RC[24 - nr:] for nr in range(0, 25)}


# --------------------------------------------------------------------------
# Unrolled permutation (generated)
# --------------------------------------------------------------------------

def _gen_perm_source():
    L = []
    w = L.append
    w("def _perm(s, rcs, M=0xFFFFFFFFFFFFFFFF):")
    w("    (" + ", ".join("a%d" % i for i in range(25)) + ") = s")
    w("    for rc in rcs:")
    ind = "        "
    # theta: C[x] = xor of column x; D[x] = C[x-1] ^ rot(C[x+1], 1)
    for x in range(5):
        w(ind + "c%d = a%d ^ a%d ^ a%d ^ a%d ^ a%d" % (x, x, x + 5, x + 10, x + 15, x + 20))
    for x in range(5):
        p, n = (x - 1) % 5, (x + 1) % 5
        w(ind + "d%d = c%d ^ ((c%d << 1 | c%d >> 63) & M)" % (x, p, n, n))
    # theta (apply) + rho + pi:  B[y, 2x+3y] = rot(A[x, y] ^ D[x], r[x, y])
    for y in range(5):
        for x in range(5):
            src = x + 5 * y
            dst = y + 5 * ((2 * x + 3 * y) % 5)
            r = RHO[src]
            if r == 0:
                w(ind + "b%d = a%d ^ d%d" % (dst, src, x))
            else:
                w(ind + "t = a%d ^ d%d; b%d = (t << %d | t >> %d) & M" % (src, x, dst, r, 64 - r))
    # chi (+ iota on lane 0):  A[x, y] = B[x, y] ^ (~B[x+1, y] & B[x+2, y])
    for y in range(5):
        for x in range(5):
            i = x + 5 * y
            i1 = (x + 1) % 5 + 5 * y
            i2 = (x + 2) % 5 + 5 * y
            extra = " ^ rc" if i == 0 else ""
            w(ind + "a%d = b%d ^ (~b%d & b%d)%s" % (i, i, i1, i2, extra))
    w("    return [" + ", ".join("a%d" % i for i in range(25)) + "]")
    return "\n".join(L) + "\n"


_ns = {}
exec(compile(_gen_perm_source(), "<mc.ref.keccak generated permutation>", "exec"), _ns)
_perm = _ns["_perm"]
del _ns


def keccak_p(state, rounds=24):
    """Keccak-p[1600, rounds] on a list of 25 lanes; returns a new list.

    rounds=24 is Keccak-f[1600]; rounds=12 is the TurboSHAKE permutation
    (the LAST `rounds` rounds of Keccak-f[1600]).
    """
    if len(state) != 25:
        raise ValueError("state must have 25 lanes")
    if not 0 <= rounds <= 24:
        raise ValueError("rounds must be in 0..24 for this reference")
    for v in state:
        if not 0 <= v <= _MASK:
            raise ValueError("lane out of range")
    return _perm(state, _RC_BY_ROUNDS[rounds])


def _keccak_p_slow(state, rounds=24):
    """Literal, un-optimised FIPS 202 round function, used by selftest()
    to validate the generated permutation."""
    def rot(v, r):
        r %= 64
        return ((v << r) | (v >> (64 - r))) & _MASK if r else v
    A = [[state[x + 5 * y] for y in range(5)] for x in range(5)]
    for ir in range(24 - rounds, 24):
        C = [A[x][0] ^ A[x][1] ^ A[x][2] ^ A[x][3] ^ A[x][4] for x in range(5)]
        D = [C[(x - 1) % 5] ^ rot(C[(x + 1) % 5], 1) for x in range(5)]
        A = [[A[x][y] ^ D[x] for y in range(5)] for x in range(5)]
        B = [[0] * 5 for _ in range(5)]
        for x in range(5):
            for y in range(5):
                B[y][(2 * x + 3 * y) % 5] = rot(A[x][y], RHO[x + 5 * y])
        A = [[B[x][y] ^ ((~B[(x + 1) % 5][y] & _MASK) & B[(x + 2) % 5][y])
              for y in range(5)] for x in range(5)]
        A[0][0] ^= RC[ir]
    return [A[i % 5][i // 5] for i in range(25)]


# --------------------------------------------------------------------------
# Sponge
# --------------------------------------------------------------------------

class Sponge(object):
    """Incremental byte-oriented sponge over Keccak-p[1600, rounds].

    suffix_byte holds the domain-separation bits followed by the first '1'
    bit of pad10*1, LSB first (0x06 SHA-3, 0x1F SHAKE, 0x04 cSHAKE,
    0x01 legacy Keccak, D for TurboSHAKE).  The final '1' bit of pad10*1 is
    XORed as 0x80 into the last byte of the rate.
    """

    def __init__(self, rate_bytes, suffix_byte, rounds=24):
        if not 0 < rate_bytes < 200:
            raise ValueError("rate must be in 1..199 bytes")
        if not 1 <= suffix_byte <= 0xFF:
            raise ValueError("suffix byte must be in 1..255")
        if rounds not in _RC_BY_ROUNDS:
            raise ValueError("bad round count")
        self.rate = rate_bytes
        self.suffix = suffix_byte
        self._rcs = _RC_BY_ROUNDS[rounds]
        self._lanes = (rate_bytes + 7) // 8
        self._fmt = "<%dQ" % self._lanes
        self._tail = b"\x00" * (self._lanes * 8 - rate_bytes)
        self._s = [0] * 25
        self._buf = b""          # un-absorbed input, always < rate bytes
        self._squeezing = False
        self._out = b""          # squeezed-but-unread output bytes

    def _xor_block(self, block):
        # block is exactly self._lanes * 8 bytes
        s = self._s
        i = 0
        for v in struct.unpack(self._fmt, block):
            s[i] ^= v
            i += 1

    def absorb(self, data):
        if self._squeezing:
            raise TypeError("cannot absorb after squeezing has started")
        data = self._buf + bytes(data)
        rate = self.rate
        n = len(data)
        off = 0
        if n >= rate:
            s = self._s
            rcs = self._rcs
            lanes = self._lanes
            if rate == lanes * 8:
                fmt = self._fmt
                unpack_from = struct.unpack_from
                while n - off >= rate:
                    i = 0
                    for v in unpack_from(fmt, data, off):
                        s[i] ^= v
                        i += 1
                    s = _perm(s, rcs)
                    off += rate
                self._s = s
            else:
                while n - off >= rate:
                    self._xor_block(data[off:off + rate] + self._tail)
                    self._s = _perm(self._s, rcs)
                    off += rate
        self._buf = data[off:]
        return self

    def _finalize(self):
        rate = self.rate
        block = bytearray(self._lanes * 8)
        q = len(self._buf)
        block[:q] = self._buf
        block[q] ^= self.suffix
        # If the first pad bit is bit 7 of the last rate byte, the closing
        # pad bit must go to a new block.
        if (self.suffix & 0x80) and q == rate - 1:
            self._xor_block(bytes(block))
            self._s = _perm(self._s, self._rcs)
            block = bytearray(self._lanes * 8)
        block[rate - 1] ^= 0x80
        self._xor_block(bytes(block))
        self._s = _perm(self._s, self._rcs)
        self._buf = b""
        self._squeezing = True
        self._out = struct.pack("<25Q", *self._s)[:rate]

    def squeeze(self, n):
        if n < 0:
            raise ValueError("negative length")
        if not self._squeezing:
            self._finalize()
        out = self._out
        if len(out) < n:
            parts = [out]
            have = len(out)
            rate = self.rate
            s = self._s
            rcs = self._rcs
            while have < n:
                s = _perm(s, rcs)
                parts.append(struct.pack("<25Q", *s)[:rate])
                have += rate
            self._s = s
            out = b"".join(parts)
        self._out = out[n:]
        return out[:n]


def sponge(rate_bytes, data, suffix_byte, outlen, rounds=24):
    return Sponge(rate_bytes, suffix_byte, rounds).absorb(data).squeeze(outlen)


# --------------------------------------------------------------------------
# FIPS 202 functions and legacy Keccak
# --------------------------------------------------------------------------

def sha3(bits, msg):
    if bits not in (224, 256, 384, 512):
        raise ValueError("SHA-3 digest size must be 224/256/384/512")
    return sponge(200 - 2 * bits // 8, msg, 0x06, bits // 8)


def shake(bits, msg, outlen):
    if bits not in (128, 256):
        raise ValueError("SHAKE security strength must be 128/256")
    return sponge(200 - 2 * bits // 8, msg, 0x1F, outlen)


def keccak_legacy(digest_bits, msg):
    """Pre-standard Keccak[c = 2*digest_bits] with plain pad10*1."""
    if digest_bits not in (224, 256, 384, 512):
        raise ValueError("Keccak digest size must be 224/256/384/512")
    return sponge(200 - 2 * digest_bits // 8, msg, 0x01, digest_bits // 8)


# --------------------------------------------------------------------------
# SP 800-185
# --------------------------------------------------------------------------

def _int_bytes(n):
    """Minimal big-endian encoding, at least one byte."""
    if n < 0:
        raise ValueError("negative integer")
    return n.to_bytes(max(1, (n.bit_length() + 7) // 8), "big")


def left_encode(n):
    b = _int_bytes(n)
    if len(b) > 255:
        raise ValueError("integer too large for left_encode")
    return bytes([len(b)]) + b


def right_encode(n):
    b = _int_bytes(n)
    if len(b) > 255:
        raise ValueError("integer too large for right_encode")
    return b + bytes([len(b)])


def encode_string(b):
    b = bytes(b)
    return left_encode(8 * len(b)) + b


def bytepad(b, w):
    if w <= 0:
        raise ValueError("w must be positive")
    z = left_encode(w) + bytes(b)
    return z + b"\x00" * (-len(z) % w)


def _cshake_sponge(bits, function_name, custom):
    """Sponge primed for cSHAKE (or plain SHAKE when N and S are empty)."""
    if bits not in (128, 256):
        raise ValueError("cSHAKE security strength must be 128/256")
    rate = 200 - 2 * bits // 8
    if not function_name and not custom:
        return Sponge(rate, 0x1F)
    sp = Sponge(rate, 0x04)
    sp.absorb(bytepad(encode_string(function_name) + encode_string(custom), rate))
    return sp


def cshake(bits, msg, outlen, function_name=b"", custom=b""):
    return _cshake_sponge(bits, function_name, custom).absorb(msg).squeeze(outlen)


def kmac(bits, key, msg, outlen, custom=b""):
    """KMAC128/KMAC256 with fixed output length `outlen` bytes (not KMACXOF)."""
    if bits not in (128, 256):
        raise ValueError("KMAC security strength must be 128/256")
    rate = 200 - 2 * bits // 8
    sp = _cshake_sponge(bits, b"KMAC", custom)
    sp.absorb(bytepad(encode_string(key), rate))
    sp.absorb(msg)
    sp.absorb(right_encode(8 * outlen))
    return sp.squeeze(outlen)


def tuplehash(bits, tuple_of_bytes, outlen, custom=b""):
    """TupleHash128/256 with fixed output length `outlen` bytes."""
    sp = _cshake_sponge(bits, b"TupleHash", custom)
    for item in tuple_of_bytes:
        sp.absorb(encode_string(item))
    sp.absorb(right_encode(8 * outlen))
    return sp.squeeze(outlen)


# --------------------------------------------------------------------------
# RFC 9861: TurboSHAKE and KangarooTwelve
# --------------------------------------------------------------------------

def _turbo_sponge(bits, domain):
    if bits not in (128, 256):
        raise ValueError("TurboSHAKE security strength must be 128/256")
    if not 0x01 <= domain <= 0x7F:
        raise ValueError("TurboSHAKE domain byte must be in 0x01..0x7F")
    return Sponge(200 - 2 * bits // 8, domain, rounds=12)


def turboshake(bits, msg, outlen, domain=0x1F):
    return _turbo_sponge(bits, domain).absorb(msg).squeeze(outlen)


def length_encode(n):
    """RFC 9861 length_encode: big-endian digits (none for 0) then count."""
    if n < 0:
        raise ValueError("negative integer")
    b = n.to_bytes((n.bit_length() + 7) // 8, "big")
    if len(b) > 255:
        raise ValueError("integer too large for length_encode")
    return b + bytes([len(b)])


_K12_CHUNK = 8192


def _kangaroo(bits, cvlen, msg, custom, outlen):
    s = bytes(msg) + bytes(custom) + length_encode(len(custom))
    if len(s) <= _K12_CHUNK:
        return turboshake(bits, s, outlen, 0x07)
    final = _turbo_sponge(bits, 0x06)
    final.absorb(s[:_K12_CHUNK])
    final.absorb(b"\x03" + b"\x00" * 7)
    n = 0
    for off in range(_K12_CHUNK, len(s), _K12_CHUNK):
        final.absorb(turboshake(bits, s[off:off + _K12_CHUNK], cvlen, 0x0B))
        n += 1
    final.absorb(length_encode(n))
    final.absorb(b"\xFF\xFF")
    return final.squeeze(outlen)


def kangarootwelve(msg, custom=b"", outlen=32):
    """KT128(M, C, L)."""
    return _kangaroo(128, 32, msg, custom, outlen)


def kangarootwelve256(msg, custom=b"", outlen=64):
    """KT256(M, C, L)."""
    return _kangaroo(256, 64, msg, custom, outlen)


# --------------------------------------------------------------------------
# Self test
# --------------------------------------------------------------------------

def _ptn(n):
    """RFC 9861 test pattern: 00 01 .. FA repeated, truncated to n bytes."""
    pat = bytes(range(0xFB))
    return (pat * (n // 0xFB + 1))[:n]


def _h(s):
    return bytes.fromhex(s.replace(" ", "").replace("\n", ""))


def selftest():
    import hashlib

    # --- constants (FIPS 202 / Keccak reference, well-known values)
    assert RC[0] == 0x0000000000000001
    assert RC[1] == 0x0000000000008082
    assert RC[2] == 0x800000000000808A
    assert RC[12] == 0x000000008000808B
    assert RC[23] == 0x8000000080008008
    # FIPS 202 Table 2 (offsets mod 64), rows y = 0..4, x = 0..4
    assert RHO == (0, 1, 190 % 64, 28, 91 % 64,
                   36, 300 % 64, 6, 55, 276 % 64,
                   3, 10, 171 % 64, 153 % 64, 231 % 64,
                   105 % 64, 45, 15, 21, 136 % 64,
                   210 % 64, 66 % 64, 253 % 64, 120 % 64, 78 % 64)

    # --- generated permutation vs literal FIPS 202 rounds
    st = [(0x0123456789ABCDEF * (i + 1) ^ (i << 57)) & _MASK for i in range(25)]
    for nr in (0, 1, 2, 12, 24):
        assert keccak_p(st, nr) == _keccak_p_slow(st, nr), nr
    # Keccak-f[1600] on the all-zero state: first lane of the published
    # KeccakF-1600-IntermediateValues.txt final state.
    z = keccak_p([0] * 25, 24)
    assert z[0] == 0xF1258F7940E1DDE7, hex(z[0])
    assert z[1] == 0x84D5CCF933C0478A, hex(z[1])

    # --- against hashlib, lengths around the rate, one-shot and incremental
    for bits in (224, 256, 384, 512):
        rate = 200 - bits // 4
        for ln in (0, 1, rate - 1, rate, rate + 1, 2 * rate - 1, 2 * rate, 2 * rate + 1):
            m = _ptn(ln)
            ref = hashlib.new("sha3_%d" % bits, m).digest()
            assert sha3(bits, m) == ref, (bits, ln)
            sp = Sponge(rate, 0x06)
            for i in range(0, ln, 7):
                sp.absorb(m[i:i + 7])
            assert sp.squeeze(bits // 8) == ref, (bits, ln, "incremental")
    for bits in (128, 256):
        rate = 200 - bits // 4
        for ln in (0, 1, rate - 1, rate, rate + 1, 2 * rate - 1, 2 * rate, 2 * rate + 1):
            m = _ptn(ln)
            ref = hashlib.new("shake_%d" % bits, m).digest(3 * rate + 5)
            assert shake(bits, m, 3 * rate + 5) == ref, (bits, ln)
            sp = Sponge(rate, 0x1F).absorb(m)
            got = b"".join(sp.squeeze(k) for k in (0, 1, rate - 1, rate, rate + 5))
            assert got == ref, (bits, ln, "incremental squeeze")
            assert cshake(bits, m, 40) == ref[:40]

    # --- legacy Keccak (Keccak team known-answer values)
    assert keccak_legacy(224, b"") == _h(
        "f71837502ba8e10837bdd8d365adb85591895602fc552b48b7390abd")
    assert keccak_legacy(256, b"") == _h(
        "c5d2460186f7233c927e7db2dcc703c0e500b653ca82273b7bfad8045d85a470")
    assert keccak_legacy(384, b"") == _h(
        "2c23146a63a29acf99e73b88f8c24eaa7dc60aa771780ccc006afbfa8fe2479b"
        "2dd2b21362337441ac12b515911957ff")
    assert keccak_legacy(512, b"") == _h(
        "0eab42de4c3ceb9235fc91acffe746b29c29a8c366b7c60e4e67c466f36a4304"
        "c00fa9caf9d87976ba469bcbe06713b435f091ef2769fb160cdab33d3670680e")
    assert keccak_legacy(256, b"abc") == _h(
        "4e03657aea45a94fc7d47ba826c8d667c0d1e6e33a64a036ec44f58fa12d6c45")

    # --- SP 800-185 encodings (examples from the text of the standard)
    assert left_encode(0) == b"\x01\x00"
    assert right_encode(0) == b"\x00\x01"
    assert left_encode(256) == b"\x02\x01\x00"
    assert right_encode(256) == b"\x01\x00\x02"
    assert encode_string(b"") == b"\x01\x00"
    assert bytepad(b"", 4) == b"\x01\x04\x00\x00"
    assert len(bytepad(b"abc", 168)) == 168

    # --- NIST SP 800-185 sample vectors (cSHAKE_samples.pdf etc.)
    d4 = _h("00010203")
    d200 = bytes(range(200))
    assert cshake(128, d4, 32, b"", b"Email Signature") == _h(
        "C1C36925B6409A04F1B504FCBCA9D82B4017277CB5ED2B2065FC1D3814D5AAF5")
    assert cshake(128, d200, 32, b"", b"Email Signature") == _h(
        "C5221D50E4F822D96A2E8881A961420F294B7B24FE3D2094BAED2C6524CC166B")
    assert cshake(256, d4, 64, b"", b"Email Signature") == _h(
        "D008828E2B80AC9D2218FFEE1D070C48B8E4C87BFF32C9699D5B6896EEE0EDD1"
        "64020E2BE0560858D9C00C037E34A96937C561A74C412BB4C746469527281C8C")
    assert cshake(256, d200, 64, b"", b"Email Signature") == _h(
        "07DC27B11E51FBAC75BC7B3C1D983E8B4B85FB1DEFAF218912AC864302730917"
        "27F42B17ED1DF63E8EC118F04B23633C1DFB1574C8FB55CB45DA8E25AFB092BB")

    key = bytes(range(0x40, 0x60))
    tag = b"My Tagged Application"
    assert kmac(128, key, d4, 32) == _h(
        "E5780B0D3EA6F7D3A429C5706AA43A00FADBD7D49628839E3187243F456EE14E")
    assert kmac(128, key, d4, 32, tag) == _h(
        "3B1FBA963CD8B0B59E8C1A6D71888B7143651AF8BA0A7070C0979E2811324AA5")
    assert kmac(128, key, d200, 32, tag) == _h(
        "1F5B4E6CCA02209E0DCB5CA635B89A15E271ECC760071DFD805FAA38F9729230")
    assert kmac(256, key, d4, 64, tag) == _h(
        "20C570C31346F703C9AC36C61C03CB64C3970D0CFC787E9B79599D273A68D2F7"
        "F69D4CC3DE9D104A351689F27CF6F5951F0103F33F4F24871024D9C27773A8DD")
    assert kmac(256, key, d200, 64) == _h(
        "75358CF39E41494E949707927CEE0AF20A3FF553904C86B08F21CC414BCFD691"
        "589D27CF5E15369CBBFF8B9A4C2EB17800855D0235FF635DA82533EC6B759B69")
    assert kmac(256, key, d200, 64, tag) == _h(
        "B58618F71F92E1D56C1B8C55DDD7CD188B97B4CA4D99831EB2699A837DA2E4D9"
        "70FBACFDE50033AEA585F1A2708510C32D07880801BD182898FE476876FC8965")

    t1, t2, t3 = _h("000102"), _h("101112131415"), _h("202122232425262728")
    app = b"My Tuple App"
    assert tuplehash(128, (t1, t2), 32) == _h(
        "C5D8786C1AFB9B82111AB34B65B2C0048FA64E6D48E263264CE1707D3FFC8ED1")
    assert tuplehash(128, (t1, t2), 32, app) == _h(
        "75CDB20FF4DB1154E841D758E24160C54BAE86EB8C13E7F5F40EB35588E96DFB")
    assert tuplehash(128, (t1, t2, t3), 32, app) == _h(
        "E60F202C89A2631EDA8D4C588CA5FD07F39E5151998DECCF973ADB3804BB6E84")
    assert tuplehash(256, (t1, t2), 64) == _h(
        "CFB7058CACA5E668F81A12A20A2195CE97A925F1DBA3E7449A56F82201EC6073"
        "11AC2696B1AB5EA2352DF1423BDE7BD4BB78C9AED1A853C78672F9EB23BBE194")
    assert tuplehash(256, (t1, t2), 64, app) == _h(
        "147C2191D5ED7EFD98DBD96D7AB5A11692576F5FE2A5065F3E33DE6BBA9F3AA1"
        "C4E9A068A289C61C95AAB30AEE1E410B0B607DE3620E24A4E3BF9852A1D4367E")
    assert tuplehash(256, (t1, t2, t3), 64, app) == _h(
        "45000BE63F9B6BFD89F54717670F69A9BC763591A4F05C50D68891A744BCC6E7"
        "D6D5B5E82C018DA999ED35B0BB49C9678E526ABD8E85C13ED254021DB9E790CE")

    # --- RFC 9861 section 5 vectors
    assert length_encode(0) == b"\x00"
    assert length_encode(12) == b"\x0C\x01"
    assert length_encode(65538) == b"\x01\x00\x02\x03"

    assert turboshake(128, b"", 32, 0x1F) == _h(
        "1E 41 5F 1C 59 83 AF F2 16 92 17 27 7D 17 BB 53"
        "8C D9 45 A3 97 DD EC 54 1F 1C E4 1A F2 C1 B7 4C")
    assert turboshake(128, _ptn(1), 32, 0x1F) == _h(
        "55 CE DD 6F 60 AF 7B B2 9A 40 42 AE 83 2E F3 F5"
        "8D B7 29 9F 89 3E BB 92 47 24 7D 85 69 58 DA A9")
    assert turboshake(256, b"", 64, 0x1F) == _h(
        "36 7A 32 9D AF EA 87 1C 78 02 EC 67 F9 05 AE 13"
        "C5 76 95 DC 2C 66 63 C6 10 35 F5 9A 18 F8 E7 DB"
        "11 ED C0 E1 2E 91 EA 60 EB 6B 32 DF 06 DD 7F 00"
        "2F BA FA BB 6E 13 EC 1C C2 0D 99 55 47 60 0D B0")

    assert turboshake(128, b"", 10032, 0x1F)[-32:] == _h(
        "A3 B9 B0 38 59 00 CE 76 1F 22 AE D5 48 E7 54 DA"
        "10 A5 24 2D 62 E8 C6 58 E3 F3 A9 23 A7 55 56 07")
    assert turboshake(128, b"\xFF" * 3, 32, 0x01) == _h(
        "BF 32 3F 94 04 94 E8 8E E1 C5 40 FE 66 0B E8 A0"
        "C9 3F 43 D1 5E C0 06 99 84 62 FA 99 4E ED 5D AB")
    for bad in (0x00, 0x80, 0xFF):
        try:
            turboshake(128, b"", 1, bad)
        except ValueError:
            pass
        else:
            raise AssertionError("domain byte %#x accepted" % bad)

    assert kangarootwelve(b"", b"", 10032)[-32:] == _h(
        "E8 DC 56 36 42 F7 22 8C 84 68 4C 89 84 05 D3 A8"
        "34 79 91 58 C0 79 B1 28 80 27 7A 1D 28 E2 FF 6D")
    assert kangarootwelve256(b"", b"", 64) == _h(
        "B2 3D 2E 9C EA 9F 49 04 E0 2B EC 06 81 7F C1 0C"
        "E3 8C E8 E9 3E F4 C8 9E 65 37 07 6A F8 64 64 04"
        "E3 E8 B6 81 07 B8 83 3A 5D 30 49 0A A3 34 82 35"
        "3F D4 AD C7 14 8E CB 78 28 55 00 3A AE BD E4 A9")
    assert kangarootwelve256(_ptn(1), b"", 64) == _h(
        "0D 00 5A 19 40 85 36 02 17 12 8C F1 7F 91 E1 F7"
        "13 14 EF A5 56 45 39 D4 44 91 2E 34 37 EF A1 7F"
        "82 DB 6F 6F FE 76 E7 81 EA A0 68 BC E0 1F 2B BF"
        "81 EA CB 98 3D 72 30 F2 FB 02 83 4A 21 B1 DD D0")

    kt = kangarootwelve
    assert kt(b"", b"", 32) == _h(
        "1A C2 D4 50 FC 3B 42 05 D1 9D A7 BF CA 1B 37 51"
        "3C 08 03 57 7A C7 16 7F 06 FE 2C E1 F0 EF 39 E5")
    assert kt(b"", b"", 64) == _h(
        "1A C2 D4 50 FC 3B 42 05 D1 9D A7 BF CA 1B 37 51"
        "3C 08 03 57 7A C7 16 7F 06 FE 2C E1 F0 EF 39 E5"
        "42 69 C0 56 B8 C8 2E 48 27 60 38 B6 D2 92 96 6C"
        "C0 7A 3D 46 45 27 2E 31 FF 38 50 81 39 EB 0A 71")
    assert kt(_ptn(1), b"", 32) == _h(
        "2B DA 92 45 0E 8B 14 7F 8A 7C B6 29 E7 84 A0 58"
        "EF CA 7C F7 D8 21 8E 02 D3 45 DF AA 65 24 4A 1F")
    assert kt(_ptn(17), b"", 32) == _h(
        "6B F7 5F A2 23 91 98 DB 47 72 E3 64 78 F8 E1 9B"
        "0F 37 12 05 F6 A9 A9 3A 27 3F 51 DF 37 12 28 88")
    assert kt(_ptn(17 ** 2), b"", 32) == _h(
        "0C 31 5E BC DE DB F6 14 26 DE 7D CF 8F B7 25 D1"
        "E7 46 75 D7 F5 32 7A 50 67 F3 67 B1 08 EC B6 7C")
    assert kt(_ptn(17 ** 3), b"", 32) == _h(
        "CB 55 2E 2E C7 7D 99 10 70 1D 57 8B 45 7D DF 77"
        "2C 12 E3 22 E4 EE 7F E4 17 F9 2C 75 8F 0D 59 D0")
    assert kt(_ptn(17 ** 4), b"", 32) == _h(
        "87 01 04 5E 22 20 53 45 FF 4D DA 05 55 5C BB 5C"
        "3A F1 A7 71 C2 B8 9B AE F3 7D B4 3D 99 98 B9 FE")
    assert kt(b"", _ptn(1), 32) == _h(
        "FA B6 58 DB 63 E9 4A 24 61 88 BF 7A F6 9A 13 30"
        "45 F4 6E E9 84 C5 6E 3C 33 28 CA AF 1A A1 A5 83")
    assert kt(b"\xFF", _ptn(41), 32) == _h(
        "D8 48 C5 06 8C ED 73 6F 44 62 15 9B 98 67 FD 4C"
        "20 B8 08 AC C3 D5 BC 48 E0 B0 6B A0 A3 76 2E C4")
    assert kt(b"\xFF" * 3, _ptn(41 ** 2), 32) == _h(
        "C3 89 E5 00 9A E5 71 20 85 4C 2E 8C 64 67 0A C0"
        "13 58 CF 4C 1B AF 89 44 7A 72 42 34 DC 7C ED 74")
    assert kt(b"\xFF" * 7, _ptn(41 ** 3), 32) == _h(
        "75 D2 F8 6A 2E 64 45 66 72 6B 4F BC FC 56 57 B9"
        "DB CF 07 0C 7B 0D CA 06 45 0A B2 91 D7 44 3B CF")
    assert kt(_ptn(8191), b"", 32) == _h(
        "1B 57 76 36 F7 23 64 3E 99 0C C7 D6 A6 59 83 74"
        "36 FD 6A 10 36 26 60 0E B8 30 1C D1 DB E5 53 D6")
    assert kt(_ptn(8192), b"", 32) == _h(
        "48 F2 56 F6 77 2F 9E DF B6 A8 B6 61 EC 92 DC 93"
        "B9 5E BD 05 A0 8A 17 B3 9A E3 49 08 70 C9 26 C3")
    return True


if __name__ == "__main__":
    selftest()
    print("OK")
