"""DSA reference (FIPS 186-4 section 4) with RFC 6979 deterministic nonces.

Pure Python, standard library only (hashlib, hmac) plus the sibling ``nt``.

  bits2int(h, qlen)        leftmost min(qlen, 8*len(h)) bits of h as integer
                           (FIPS 186-4 4.6 "z = leftmost min(N, outlen) bits",
                            RFC 6979 2.3.2)
  dsa_sign(p,q,g,x,h,k)    FIPS 186-4 4.6   -> (r, s); ValueError if r or s is 0
  dsa_verify(p,q,g,y,h,r,s)  FIPS 186-4 4.7 -> bool
  rfc6979_k(q,x,h1,hashname[,extra]) RFC 6979 3.2 (own copy, no dependency)
  dsa_check_domain / dsa_check_key  -> lists of violated invariants
"""

import hashlib
import hmac

from . import nt

__all__ = ["bits2int", "int2octets", "bits2octets", "rfc6979_k", "rfc6979_k_stream",
           "dsa_sign", "dsa_sign_deterministic", "dsa_verify", "dsa_public",
           "dsa_check_domain", "dsa_check_key", "FIPS_LN"]

# (L, N) pairs of FIPS 186-4 section 4.2
FIPS_LN = ((1024, 160), (2048, 224), (2048, 256), (3072, 256))


def bits2int(b, qlen):
    b = bytes(b)
    v = int.from_bytes(b, "big")
    blen = 8 * len(b)
    if blen > qlen:
        v >>= blen - qlen
    return v


def int2octets(x, qlen):
    return x.to_bytes((qlen + 7) // 8, "big")


def bits2octets(b, q):
    qlen = q.bit_length()
    z1 = bits2int(b, qlen)
    z2 = z1 - q if z1 >= q else z1
    return int2octets(z2, qlen)


def rfc6979_k_stream(q, x, h1, hashname, extra=b""):
    """Generator of the successive candidates of RFC 6979 3.2 step h
    (the first one in [1, q-1] is *the* nonce; a caller that must reject it,
    e.g. because r == 0, simply takes the next one).
    ``extra`` is the optional k' input of RFC 6979 3.6."""
    qlen = q.bit_length()
    rlen = (qlen + 7) // 8

    def mac(key, data):
        return hmac.new(key, data, hashname).digest()

    hlen = hashlib.new(hashname).digest_size
    seed = int2octets(x, qlen) + bits2octets(h1, q) + bytes(extra)
    v = b"\x01" * hlen                                   # b
    k = b"\x00" * hlen                                   # c
    k = mac(k, v + b"\x00" + seed)                       # d
    v = mac(k, v)                                        # e
    k = mac(k, v + b"\x01" + seed)                       # f
    v = mac(k, v)                                        # g
    while True:                                          # h
        t = b""
        while len(t) < rlen:
            v = mac(k, v)
            t += v
        cand = bits2int(t, qlen)
        if 1 <= cand <= q - 1:
            yield cand
        k = mac(k, v + b"\x00")
        v = mac(k, v)


def rfc6979_k(q, x, h1, hashname, extra=b""):
    """RFC 6979 section 3.2: nonce for private key x, message digest h1
    (already hashed with the hash named ``hashname``, which also keys HMAC)."""
    if not 0 < x < q:
        raise ValueError("private key out of range")
    return next(rfc6979_k_stream(q, x, h1, hashname, extra))


def dsa_public(p, q, g, x):
    return pow(g, x, p)


def dsa_sign(p, q, g, x, h, k):
    """FIPS 186-4 4.6.  h = message digest (bytes), k = per-message secret."""
    if not 0 < k < q:
        raise ValueError("k out of range")
    if not 0 < x < q:
        raise ValueError("x out of range")
    z = bits2int(h, q.bit_length())
    r = pow(g, k, p) % q
    s = nt.inverse(k, q) * (z + x * r) % q
    if r == 0 or s == 0:
        raise ValueError("r or s is zero: a new k is required")
    return r, s


def dsa_sign_deterministic(p, q, g, x, h, hashname):
    """RFC 6979 3.2 incl. the retry rule of step h.3 (r == 0) -> (k, r, s)."""
    for k in rfc6979_k_stream(q, x, h, hashname):
        try:
            r, s = dsa_sign(p, q, g, x, h, k)
        except ValueError:
            continue
        return k, r, s


def dsa_verify(p, q, g, y, h, r, s):
    """FIPS 186-4 4.7."""
    if not (0 < r < q and 0 < s < q):
        return False
    w = nt.inverse(s, q)
    z = bits2int(h, q.bit_length())
    u1 = z * w % q
    u2 = r * w % q
    v = pow(g, u1, p) * pow(y, u2, p) % p % q
    return v == r


def dsa_check_domain(p, q, g, fips_sizes=False):
    """Violated invariants of (p, q, g), FIPS 186-4 4.1 / A.2.2:
    p, q prime; q | p - 1; 1 < g < p; g^q == 1 (mod p) (so g has order q)."""
    bad = []
    if p < 3 or q < 2:
        return ["range"]
    if not nt.is_prime(p):
        bad.append("p_not_prime")
    if not nt.is_prime(q):
        bad.append("q_not_prime")
    if (p - 1) % q != 0:
        bad.append("q_not_dividing_p_minus_1")
    if not 1 < g < p:
        bad.append("g_range")
    elif pow(g, q, p) != 1:
        bad.append("g_order")
    if fips_sizes and (p.bit_length(), q.bit_length()) not in FIPS_LN:
        bad.append("size")
    return bad


def dsa_check_key(p, q, g, y, x=None, fips_sizes=False):
    """Domain checks plus: 1 < y < p, y^q == 1 (mod p) (SP 800-89 5.3.1
    full public key validation), 0 < x < q, y == g^x (mod p)."""
    bad = dsa_check_domain(p, q, g, fips_sizes)
    if "range" in bad:
        return bad
    if not 1 < y < p:
        bad.append("y_range")
    elif pow(y, q, p) != 1:
        bad.append("y_order")
    if x is not None:
        if not 0 < x < q:
            bad.append("x_range")
        if pow(g, x, p) != y % p:
            bad.append("y_ne_g_pow_x")
    return bad


# ------------------------------------------------------------------ selftest

def _h(s):
    return int("".join(s.split()), 16)


# RFC 6979 appendix A.2.1 (DSA, 1024 bits)
_P = _h("""86F5CA03DCFEB225063FF830A0C769B9DD9D6153AD91D7CE27F787C43278B447
           E6533B86B18BED6E8A48B784A14C252C5BE0DBF60B86D6385BD2F12FB763ED88
           73ABFD3F5BA2E0A8C0A59082EAC056935E529DAF7C610467899C77ADEDFC846C
           881870B7B19B2B58F9BE0521A17002E3BDD6B86685EE90B3D9A1B02B782B1779""")
_Q = _h("996F967F6C8E388D9E28D01E205FBA957A5698B1")
_G = _h("""07B0F92546150B62514BB771E2A0C0CE387F03BDA6C56B505209FF25FD3C133D
           89BBCD97E904E09114D9A7DEFDEADFC9078EA544D2E401AEECC40BB9FBBF78FD
           87995A10A1C27CB7789B594BA7EFB5C4326A9FE59A070E136DB77175464ADCA4
           17BE5DCE2F40D10A46A3A3943F26AB7FD9C0398FF8C76EE0A56826A8A88F1DBD""")
_X = _h("411602CB19A6CCC34494D79D98EF1E7ED5AF25F7")
_Y = _h("""5DF5E01DED31D0297E274E1691C192FE5868FEF9E19A84776454B100CF16F653
           92195A38B90523E2542EE61871C0440CB87C322FC4B4D2EC5E1E7EC766E1BE8D
           4CE935437DC11C3C8FD426338933EBFE739CB3465F4D3668C5E473508253B1E6
           82F65CBDC4FAE93C2EA212390E54905A86E2223170B44EAA7DA5DD9FFCFB7F3B""")
_VECTORS = [
    (b"sample", "sha1", "7BDB6B0FF756E1BB5D53583EF979082F9AD5BD5B",
     "2E1A0C2562B2912CAAF89186FB0F42001585DA55", "29EFB6B0AFF2D7A68EB70CA313022253B9A88DF5"),
    (b"sample", "sha224", "562097C06782D60C3037BA7BE104774344687649",
     "4BC3B686AEA70145856814A6F1BB53346F02101E", "410697B92295D994D21EDD2F4ADA85566F6F94C1"),
    (b"sample", "sha256", "519BA0546D0C39202A7D34D7DFA5E760B318BCFB",
     "81F2F5850BE5BC123C43F71A3033E9384611C545", "4CDD914B65EB6C66A8AAAD27299BEE6B035F5E89"),
    (b"sample", "sha384", "95897CD7BBB944AA932DBC579C1C09EB6FCFC595",
     "07F2108557EE0E3921BC1774F1CA9B410B4CE65A", "54DF70456C86FAC10FAB47C1949AB83F2C6F7595"),
    (b"sample", "sha512", "09ECE7CA27D0F5A4DD4E556C9DF1D21D28104F8B",
     "16C3491F9B8C3FBBDD5E7A7B667057F0D8EE8E1B", "02C36A127A7B89EDBB72E4FFBC71DABC7D4FC69C"),
    (b"test", "sha1", "5C842DF4F9E344EE09F056838B42C7A17F4A6433",
     "42AB2052FD43E123F0607F115052A67DCD9C5C77", "183916B0230D45B9931491D4C6B0BD2FB4AAF088"),
]


def selftest():
    # RFC 6979 A.1: detailed example, 163-bit q (sect163k1 order), SHA-256
    q = 0x4000000000000000000020108A2E0CC0D99F8A5EF
    x = 0x09A4D6792295A7F730FC3F2B49CBC0F62E862272F
    h1 = hashlib.sha256(b"sample").digest()
    assert h1.hex().upper() == "AF2BDBE1AA9B6EC1E2ADE1D694F41FC71A831D0268E9891562113D8A62ADD1BF"
    assert int2octets(x, 163).hex().upper() == "009A4D6792295A7F730FC3F2B49CBC0F62E862272F"
    assert bits2octets(h1, q).hex().upper() == "01795EDF0D54DB760F156D0DAC04C0322B3A204224"
    assert rfc6979_k(q, x, h1, "sha256") == 0x23AF4074C90A02B3FE61D286D5C87F425E6BDD81B
    # RFC 6979 A.2.1
    assert dsa_check_domain(_P, _Q, _G, fips_sizes=True) == []
    assert dsa_check_key(_P, _Q, _G, _Y, _X) == []
    assert dsa_public(_P, _Q, _G, _X) == _Y
    for msg, hn, k, r, s in _VECTORS:
        h = hashlib.new(hn, msg).digest()
        k, r, s = int(k, 16), int(r, 16), int(s, 16)
        assert rfc6979_k(_Q, _X, h, hn) == k, (msg, hn)
        assert dsa_sign(_P, _Q, _G, _X, h, k) == (r, s), (msg, hn)
        assert dsa_sign_deterministic(_P, _Q, _G, _X, h, hn) == (k, r, s)
        assert dsa_verify(_P, _Q, _G, _Y, h, r, s)
        assert not dsa_verify(_P, _Q, _G, _Y, h, r, (s + 1) % _Q)
        assert not dsa_verify(_P, _Q, _G, _Y, h, r, s + _Q)          # range
        assert not dsa_verify(_P, _Q, _G, _Y, h, r + _Q, s)
        assert not dsa_verify(_P, _Q, _G, _Y, h, 0, s)
        assert not dsa_verify(_P, _Q, _G, _Y, h, r, 0)
        assert not dsa_verify(_P, _Q, _G, _Y, hashlib.new(hn, msg + b"!").digest(), r, s)
    # bits2int
    assert bits2int(b"\xff\xff", 12) == 0xFFF and bits2int(b"\x12\x34", 16) == 0x1234
    assert bits2int(b"\x12\x34", 20) == 0x1234 and bits2int(b"\x80", 1) == 1
    # toy group: exhaustive sign/verify consistency, p = 23, q = 11, g = 4
    p, q, g = 23, 11, 4
    assert dsa_check_domain(p, q, g) == []
    for x in range(1, q):
        y = pow(g, x, p)
        assert dsa_check_key(p, q, g, y, x) == []
        for z in range(0, 16):
            h = bytes([z << 4])                   # leftmost 4 bits = z
            made = set()
            for k in range(1, q):
                try:
                    r, s = dsa_sign(p, q, g, x, h, k)
                except ValueError:
                    continue
                assert dsa_verify(p, q, g, y, h, r, s)
                made.add((r, s))
            # accepted pairs = producible pairs, plus the degenerate family
            # r = 1 with z + x*r == 0 (mod q) (there g^u1 * y^u2 = 1 for any s)
            valid = set((r, s) for r in range(1, q) for s in range(1, q)
                        if dsa_verify(p, q, g, y, h, r, s))
            extra = set((1, s) for s in range(1, q)) if (z + x) % q == 0 else set()
            assert valid == made | extra, (x, z)
    # domain / key violations
    assert "p_not_prime" in dsa_check_domain(25, 11, 4)
    assert dsa_check_domain(23, 9, 4) == ["q_not_prime", "q_not_dividing_p_minus_1", "g_order"]
    assert dsa_check_domain(23, 11, 5) == ["g_order"]          # 5 generates the full group
    assert dsa_check_domain(23, 11, 1) == ["g_range"]
    assert dsa_check_domain(23, 11, 23) == ["g_range"]
    assert dsa_check_domain(23, 7, 4) == ["q_not_dividing_p_minus_1", "g_order"]
    assert dsa_check_domain(23, 11, 4, fips_sizes=True) == ["size"]
    assert dsa_check_key(23, 11, 4, 5) == ["y_order"]
    assert dsa_check_key(23, 11, 4, 1) == ["y_range"]
    assert dsa_check_key(23, 11, 4, pow(4, 3, 23), 4) == ["y_ne_g_pow_x"]
    assert dsa_check_key(23, 11, 4, pow(4, 3, 23), 14) == ["x_range"]
    for bad_k in (0, _Q, -1):
        try:
            dsa_sign(_P, _Q, _G, _X, b"\x01" * 20, bad_k)
            raise AssertionError("k accepted")
        except ValueError:
            pass
    # RFC 6979 stream: successive candidates differ, all in range
    st = rfc6979_k_stream(11, 3, b"\x55", "sha256")
    c = [next(st) for _ in range(20)]
    assert all(1 <= v <= 10 for v in c) and len(set(c)) > 3
    assert c[0] == rfc6979_k(11, 3, b"\x55", "sha256")
    return True


if __name__ == "__main__":
    selftest()
    print("OK")
