"""Reference RC4 (alleged RC4 / ARCFOUR), pure Python, stdlib only.

Key-scheduling algorithm and pseudo-random generation algorithm exactly as in
the 1994 description (also reproduced in RFC 6229's introduction).
Key length 1..256 bytes.
"""

__all__ = ["rc4_keystream", "selftest"]


def rc4_keystream(key, n, drop=0):
    """n keystream bytes, after discarding the first `drop` bytes."""
    key = bytes(key)
    klen = len(key)
    if not 1 <= klen <= 256:
        raise ValueError("RC4 key must be 1..256 bytes long")
    if n < 0 or drop < 0:
        raise ValueError("n and drop must be non-negative")
    # KSA
    s = list(range(256))
    j = 0
    for i in range(256):
        j = (j + s[i] + key[i % klen]) & 255
        s[i], s[j] = s[j], s[i]
    # PRGA
    i = j = 0
    for _ in range(drop):
        i = (i + 1) & 255
        si = s[i]
        j = (j + si) & 255
        s[i] = s[j]
        s[j] = si
    out = bytearray(n)
    for k in range(n):
        i = (i + 1) & 255
        si = s[i]
        j = (j + si) & 255
        sj = s[j]
        s[i] = sj
        s[j] = si
        out[k] = s[(si + sj) & 255]
    return bytes(out)


def selftest():
    h = bytes.fromhex

    def xor(a, b):
        return bytes(x ^ y for x, y in zip(a, b))

    # classic vectors
    assert xor(b"Plaintext", rc4_keystream(b"Key", 9)) == h("BBF316E8D940AF0AD3")
    assert xor(b"pedia", rc4_keystream(b"Wiki", 5)) == h("1021BF0420")
    assert xor(b"Attack at dawn", rc4_keystream(b"Secret", 14)) == \
        h("45A01F645FC35B383552544B9BF5")
    # RFC 6229, 40-bit key 0x0102030405
    k = h("0102030405")
    assert rc4_keystream(k, 16) == h("b2396305f03dc027ccc3524a0a1118a8")
    assert rc4_keystream(k, 16, 16) == h("6982944f18fc82d589c403a47a0d0919")
    assert rc4_keystream(k, 16, 240) == h("28cb1132c96ce286421dcaadb8b69eae")
    assert rc4_keystream(k, 16, 4096) == h("ff25b58995996707e51fbdf08b34d875")
    # RFC 6229, 128-bit key
    k = h("0102030405060708090a0b0c0d0e0f10")
    assert rc4_keystream(k, 16) == h("9ac7cc9a609d1ef7b2932899cde41b97")
    # RFC 6229, 256-bit key
    k = h("0102030405060708090a0b0c0d0e0f101112131415161718191a1b1c1d1e1f20")
    assert rc4_keystream(k, 16) == h("eaa6bd25880bf93d3f5d1e4ca2611d91")
    # drop consistency
    full = rc4_keystream(b"consistency", 700)
    for d in (0, 1, 255, 256, 257, 600):
        assert rc4_keystream(b"consistency", 700 - d, d) == full[d:]
    assert rc4_keystream(b"x", 0) == b""
    for bad in (b"", bytes(257)):
        try:
            rc4_keystream(bad, 1)
        except ValueError:
            pass
        else:
            raise AssertionError("bad RC4 key length accepted")


if __name__ == "__main__":
    selftest()
    print("OK")
