"""Pure-Python reference MD2 (RFC 1319) and MD4 (RFC 1320).  Stdlib only.

MD2 note: the prose of RFC 1319 section 3.2 says "Set C[j] to S[c xor L]";
the reference C code in the RFC's appendix (and RFC erratum 555) XORs into
C[j] instead.  The XOR form is the one the RFC's own test suite validates
and is what is implemented here.

The MD2 substitution table PI_SUBST is embedded, and selftest()
independently re-derives it from the decimal digits of pi (Durstenfeld
shuffle driven by pi's digits, the construction Rivest described), so a
mistyped entry cannot survive.
"""

import struct

__all__ = ["md2", "md4", "PI_SUBST", "selftest"]


# --------------------------------------------------------------------------
# MD2
# --------------------------------------------------------------------------

PI_SUBST = bytes([
    41, 46, 67, 201, 162, 216, 124, 1, 61, 54, 84, 161, 236, 240, 6,
    19, 98, 167, 5, 243, 192, 199, 115, 140, 152, 147, 43, 217, 188,
    76, 130, 202, 30, 155, 87, 60, 253, 212, 224, 22, 103, 66, 111, 24,
    138, 23, 229, 18, 190, 78, 196, 214, 218, 158, 222, 73, 160, 251,
    245, 142, 187, 47, 238, 122, 169, 104, 121, 145, 21, 178, 7, 63,
    148, 194, 16, 137, 11, 34, 95, 33, 128, 127, 93, 154, 90, 144, 50,
    39, 53, 62, 204, 231, 191, 247, 151, 3, 255, 25, 48, 179, 72, 165,
    181, 209, 215, 94, 146, 42, 172, 86, 170, 198, 79, 184, 56, 210,
    150, 164, 125, 182, 118, 252, 107, 226, 156, 116, 4, 241, 69, 157,
    112, 89, 100, 113, 135, 32, 134, 91, 207, 101, 230, 45, 168, 2, 27,
    96, 37, 173, 174, 176, 185, 246, 28, 70, 97, 105, 52, 64, 126, 15,
    85, 71, 163, 35, 221, 81, 175, 58, 195, 92, 249, 206, 186, 197,
    234, 38, 44, 83, 13, 110, 133, 40, 132, 9, 211, 223, 205, 244, 65,
    129, 77, 82, 106, 220, 55, 200, 108, 193, 171, 250, 36, 225, 123,
    8, 12, 189, 177, 74, 120, 136, 149, 139, 227, 99, 232, 109, 233,
    203, 213, 254, 59, 0, 29, 57, 242, 239, 183, 14, 102, 88, 208, 228,
    166, 119, 114, 248, 235, 117, 75, 10, 49, 68, 80, 180, 143, 237,
    31, 26, 219, 153, 141, 51, 159, 17, 131, 20,
])


def md2(msg):
    msg = bytes(msg)
    S = PI_SUBST
    # 3.1 padding: i bytes of value i, 1 <= i <= 16
    pad = 16 - (len(msg) % 16)
    m = msg + bytes([pad]) * pad
    # 3.2 checksum
    C = [0] * 16
    L = 0
    for i in range(0, len(m), 16):
        for j in range(16):
            c = m[i + j]
            C[j] ^= S[c ^ L]
            L = C[j]
    m += bytes(C)
    # 3.3 / 3.4 digest
    X = [0] * 48
    for i in range(0, len(m), 16):
        for j in range(16):
            X[16 + j] = m[i + j]
            X[32 + j] = X[16 + j] ^ X[j]
        t = 0
        for j in range(18):
            for k in range(48):
                t = X[k] = X[k] ^ S[t]
            t = (t + j) % 256
    return bytes(X[:16])


# --------------------------------------------------------------------------
# MD4
# --------------------------------------------------------------------------

_M32 = 0xFFFFFFFF


def _rol(x, s):
    return ((x << s) | (x >> (32 - s))) & _M32


def _F(x, y, z):
    return (x & y) | (~x & _M32 & z)


def _G(x, y, z):
    return (x & y) | (x & z) | (y & z)


def _H(x, y, z):
    return x ^ y ^ z


def md4(msg):
    msg = bytes(msg)
    # 3.1 / 3.2: pad with 0x80, zeros to 56 mod 64, 64-bit LE bit length
    bitlen = (8 * len(msg)) & 0xFFFFFFFFFFFFFFFF
    m = msg + b"\x80" + b"\x00" * ((55 - len(msg)) % 64) + struct.pack("<Q", bitlen)
    assert len(m) % 64 == 0
    # 3.3
    A, B, C, D = 0x67452301, 0xEFCDAB89, 0x98BADCFE, 0x10325476
    for off in range(0, len(m), 64):
        X = struct.unpack_from("<16I", m, off)
        AA, BB, CC, DD = A, B, C, D
        # Round 1: [abcd k s]: a = (a + F(b,c,d) + X[k]) <<< s
        for k in range(0, 16, 4):
            A = _rol((A + _F(B, C, D) + X[k]) & _M32, 3)
            D = _rol((D + _F(A, B, C) + X[k + 1]) & _M32, 7)
            C = _rol((C + _F(D, A, B) + X[k + 2]) & _M32, 11)
            B = _rol((B + _F(C, D, A) + X[k + 3]) & _M32, 19)
        # Round 2: a = (a + G(b,c,d) + X[k] + 5A827999) <<< s
        for k in range(4):
            A = _rol((A + _G(B, C, D) + X[k] + 0x5A827999) & _M32, 3)
            D = _rol((D + _G(A, B, C) + X[k + 4] + 0x5A827999) & _M32, 5)
            C = _rol((C + _G(D, A, B) + X[k + 8] + 0x5A827999) & _M32, 9)
            B = _rol((B + _G(C, D, A) + X[k + 12] + 0x5A827999) & _M32, 13)
        # Round 3: a = (a + H(b,c,d) + X[k] + 6ED9EBA1) <<< s
        for k in (0, 2, 1, 3):
            A = _rol((A + _H(B, C, D) + X[k] + 0x6ED9EBA1) & _M32, 3)
            D = _rol((D + _H(A, B, C) + X[k + 8] + 0x6ED9EBA1) & _M32, 9)
            C = _rol((C + _H(D, A, B) + X[k + 4] + 0x6ED9EBA1) & _M32, 11)
            B = _rol((B + _H(C, D, A) + X[k + 12] + 0x6ED9EBA1) & _M32, 15)
        A = (A + AA) & _M32
        B = (B + BB) & _M32
        C = (C + CC) & _M32
        D = (D + DD) & _M32
    return struct.pack("<4I", A, B, C, D)


# --------------------------------------------------------------------------
# Self test
# --------------------------------------------------------------------------

def _pi_digits(n):
    """First n decimal digits of pi (3, 1, 4, 1, 5, ...) via Machin's formula
    in integer arithmetic with guard digits."""
    guard = 10
    one = 10 ** (n + guard)

    def arctan_inv(x):
        # arctan(1/x) * one
        total = term = one // x
        x2 = x * x
        k = 1
        while term:
            term //= x2
            k += 2
            if (k // 2) % 2:
                total -= term // k
            else:
                total += term // k
        return total

    pi = 4 * (4 * arctan_inv(5) - arctan_inv(239))
    s = str(pi)[:n]
    return [int(ch) for ch in s]


def _derive_pi_subst():
    """MD2 S-box from the digits of pi: Durstenfeld shuffle of 0..255 where
    rand(n) consumes 1, 2 or 3 decimal digits of pi with rejection sampling."""
    digits = iter(_pi_digits(1000))

    def rand(n):
        while True:
            x = next(digits)
            y = 10
            if n > 10:
                x = x * 10 + next(digits)
                y = 100
            if n > 100:
                x = x * 10 + next(digits)
                y = 1000
            if x < n * (y // n):
                return x % n

    S = list(range(256))
    for i in range(2, 257):
        j = rand(i)
        S[j], S[i - 1] = S[i - 1], S[j]
    return bytes(S)


_SUITE = [
    b"",
    b"a",
    b"abc",
    b"message digest",
    b"abcdefghijklmnopqrstuvwxyz",
    b"ABCDEFGHIJKLMNOPQRSTUVWXYZabcdefghijklmnopqrstuvwxyz0123456789",
    b"1234567890" * 8,
]

_MD2_EXPECT = [          # RFC 1319 A.5
    "8350e5a3e24c153df2275c9f80692773",
    "32ec01ec4a6dac72c0ab96fb34c0b5d1",
    "da853b0d3f88d99b30283a69e6ded6bb",
    "ab4f496bfb2a530b219ff33031fe06b0",
    "4e8ddff3650292ab5a4108c3aa47940b",
    "da33def2a42df13975352846c30338cd",
    "d5976f79d83d3a0dc9806c3c66f3efd8",
]

_MD4_EXPECT = [          # RFC 1320 A.5
    "31d6cfe0d16ae931b73c59d7e0c089c0",
    "bde52cb31de33e46245e05fbdbd6fb24",
    "a448017aaf21d8525fc10ae87aa6729d",
    "d9130a8164549fe818874806e1c7014b",
    "d79e1c308aa5bbcdeea8ed63df412da9",
    "043f8582f241db351ce627e153e7f0e4",
    "e33b4ddc9c38f2199c3e7b164fcc0536",
]


def selftest():
    assert len(PI_SUBST) == 256
    assert sorted(PI_SUBST) == list(range(256)), "PI_SUBST is not a permutation"
    assert _pi_digits(30) == [int(c) for c in "314159265358979323846264338327"]
    assert _derive_pi_subst() == PI_SUBST, "PI_SUBST does not match pi derivation"
    for m, e in zip(_SUITE, _MD2_EXPECT):
        assert md2(m).hex() == e, ("md2", m)
    for m, e in zip(_SUITE, _MD4_EXPECT):
        assert md4(m).hex() == e, ("md4", m)
    # padding boundaries are exercised (lengths 55, 56, 63, 64, 119, 120)
    # only for self-consistency of lengths here; values are cross-checked
    # elsewhere.
    for ln in (15, 16, 17, 55, 56, 57, 63, 64, 65, 119, 120, 128):
        assert len(md2(b"x" * ln)) == 16 and len(md4(b"x" * ln)) == 16
    return True


if __name__ == "__main__":
    selftest()
    print("OK")
