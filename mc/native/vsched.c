/* vsched.c - scheduling/recording shim for clang -fsanitize=thread object code WITHOUT the TSan runtime.
 *
 * Loaded with LD_PRELOAD into a Python process that imports a pycryptodome build whose C sources
 * were compiled with -fsanitize=thread (every load/store calls __tsan_read/writeN below).
 *
 * RECORD mode : per registered thread, the set of 8-byte granules touched by instrumented code
 *               (and by memcpy/memset/memmove called from instrumented code) that are not on the
 *               thread's own stack, with read/write flags; plus the heap blocks the thread allocated
 *               while registered (thread-private by construction).
 * SCHED mode  : accesses to granules in the *conflict set* are scheduling points.  Two registered
 *               threads (0,1) run under a baton: only the baton holder may pass a point; a plan of
 *               global step indices says where the holder is preempted in favour of the other thread.
 *               Everything else runs freely (non-conflicting accesses commute).
 *
 * Build: cc -O1 -fPIC -shared -fno-builtin vsched.c -o libvsched.so -ldl -lpthread
 */
#define _GNU_SOURCE
#include <dlfcn.h>
#include <pthread.h>
#include <stdint.h>
#include <stddef.h>
#include <stdio.h>
#include <stdlib.h>
#include <string.h>
#include <unistd.h>

#define MAXT 2
#define F_READ 1
#define F_WRITE 2

/* ---------------------------------------------------------------- real allocator */
static void *(*real_malloc)(size_t);
static void *(*real_calloc)(size_t, size_t);
static void *(*real_realloc)(void *, size_t);
static void (*real_free)(void *);
static int (*real_posix_memalign)(void **, size_t, size_t);
static void *(*real_aligned_alloc)(size_t, size_t);
static void *(*real_memalign)(size_t, size_t);
static int resolving;
static char boot[65536];
static size_t boot_used;

static void resolve(void)
{
    if (real_malloc || resolving) return;
    resolving = 1;
    real_calloc = dlsym(RTLD_NEXT, "calloc");
    real_malloc = dlsym(RTLD_NEXT, "malloc");
    real_realloc = dlsym(RTLD_NEXT, "realloc");
    real_free = dlsym(RTLD_NEXT, "free");
    real_posix_memalign = dlsym(RTLD_NEXT, "posix_memalign");
    real_aligned_alloc = dlsym(RTLD_NEXT, "aligned_alloc");
    real_memalign = dlsym(RTLD_NEXT, "memalign");
    resolving = 0;
}

static void *boot_alloc(size_t n)
{
    size_t a = (boot_used + 15) & ~(size_t)15;
    if (a + n > sizeof boot) _exit(97);
    boot_used = a + n;
    return boot + a;                 /* zero-initialised static storage */
}

static int is_boot(void *p) { return (char *)p >= boot && (char *)p < boot + sizeof boot; }

/* ---------------------------------------------------------------- per-thread state */
static __thread int my_tid = -1;
static __thread int in_native;       /* depth of instrumented functions on this thread's stack */
static __thread int busy;            /* re-entrancy guard */
static __thread uintptr_t stack_lo, stack_hi;

static volatile int mode;            /* 0 off, 1 record, 2 sched */

/* access log: open addressing hash set granule -> flags */
typedef struct { uint64_t *keys; uint8_t *flags; size_t cap, n; } AccSet;
static AccSet acc[MAXT];
typedef struct { uint64_t *ptr, *size; size_t cap, n; } AllocLog;
static AllocLog alog[MAXT];
static uint64_t n_access[MAXT];

static void accset_grow(AccSet *s)
{
    size_t ncap = s->cap ? s->cap * 2 : 1 << 16, i;
    uint64_t *nk = real_calloc(ncap, sizeof *nk);
    uint8_t *nf = real_calloc(ncap, 1);
    for (i = 0; i < s->cap; i++) {
        if (s->keys[i]) {
            size_t j = (size_t)((s->keys[i] * 0x9E3779B97F4A7C15ull) >> 20) & (ncap - 1);
            while (nk[j]) j = (j + 1) & (ncap - 1);
            nk[j] = s->keys[i]; nf[j] = s->flags[i];
        }
    }
    if (s->keys) { real_free(s->keys); real_free(s->flags); }
    s->keys = nk; s->flags = nf; s->cap = ncap;
}

static void accset_add(AccSet *s, uint64_t g, int fl)
{
    size_t j;
    if (s->n * 2 >= s->cap) accset_grow(s);
    j = (size_t)((g * 0x9E3779B97F4A7C15ull) >> 20) & (s->cap - 1);
    while (s->keys[j] && s->keys[j] != g) j = (j + 1) & (s->cap - 1);
    if (!s->keys[j]) { s->keys[j] = g; s->n++; }
    s->flags[j] |= (uint8_t)fl;
}

static void log_alloc(void *p, size_t n)
{
    AllocLog *a;
    if (my_tid < 0 || mode != 1 || busy || !p) return;
    busy = 1;
    a = &alog[my_tid];
    if (a->n == a->cap) {
        size_t nc = a->cap ? a->cap * 2 : 4096;
        a->ptr = real_realloc(a->ptr, nc * sizeof(uint64_t));
        a->size = real_realloc(a->size, nc * sizeof(uint64_t));
        a->cap = nc;
    }
    a->ptr[a->n] = (uint64_t)(uintptr_t)p; a->size[a->n] = n; a->n++;
    busy = 0;
}

/* ---------------------------------------------------------------- allocator interposition */
void *malloc(size_t n)
{
    void *p;
    if (!real_malloc) { resolve(); if (!real_malloc) return boot_alloc(n); }
    p = real_malloc(n);
    log_alloc(p, n);
    return p;
}
void *calloc(size_t a, size_t b)
{
    void *p;
    if (!real_calloc) { resolve(); if (!real_calloc) return boot_alloc(a * b); }
    p = real_calloc(a, b);
    log_alloc(p, a * b);
    return p;
}
void *realloc(void *q, size_t n)
{
    void *p;
    if (!real_realloc) resolve();
    if (is_boot(q)) { p = real_malloc(n); if (p && q) memcpy(p, q, n); return p; }
    p = real_realloc(q, n);
    log_alloc(p, n);
    return p;
}
void free(void *p)
{
    if (!p || is_boot(p)) return;
    if (!real_free) resolve();
    real_free(p);
}
int posix_memalign(void **out, size_t al, size_t n)
{
    int r;
    if (!real_posix_memalign) resolve();
    r = real_posix_memalign(out, al, n);
    if (!r) log_alloc(*out, n);
    return r;
}
void *aligned_alloc(size_t al, size_t n)
{
    void *p;
    if (!real_aligned_alloc) resolve();
    p = real_aligned_alloc(al, n);
    log_alloc(p, n);
    return p;
}
void *memalign(size_t al, size_t n)
{
    void *p;
    if (!real_memalign) resolve();
    p = real_memalign(al, n);
    log_alloc(p, n);
    return p;
}

/* ---------------------------------------------------------------- scheduler */
static pthread_mutex_t mu = PTHREAD_MUTEX_INITIALIZER;
static pthread_cond_t cv = PTHREAD_COND_INITIALIZER;
static int baton, finished[MAXT], registered[MAXT];
static long gstep, plan[8], nplan, switches;
static long trace_tid[4096]; static long ntrace;   /* which thread passed step i (for replay files) */
static uint64_t *conf; static size_t nconf;        /* sorted conflict granules */
static long npoints[MAXT];

static int in_conf(uint64_t g)
{
    size_t lo = 0, hi = nconf;
    while (lo < hi) { size_t m = (lo + hi) / 2; if (conf[m] < g) lo = m + 1; else hi = m; }
    return lo < nconf && conf[lo] == g;
}

static void sched_point(void)
{
    int me = my_tid, other = 1 - my_tid;
    long my, i;
    pthread_mutex_lock(&mu);
    while (baton != me) pthread_cond_wait(&cv, &mu);
    my = gstep++;
    npoints[me]++;
    if (ntrace < 4096) trace_tid[ntrace++] = me;
    for (i = 0; i < nplan; i++) {
        if (plan[i] == my && !finished[other] && registered[other]) {
            switches++;
            baton = other;
            pthread_cond_broadcast(&cv);
            while (baton != me) pthread_cond_wait(&cv, &mu);
            break;
        }
    }
    pthread_mutex_unlock(&mu);
}

static inline void on_access(uintptr_t a, size_t n, int fl)
{
    uint64_t g, g2;
    if (my_tid < 0 || !mode || busy) return;
    if (a >= stack_lo && a < stack_hi) return;
    g = a >> 3; g2 = (a + (n ? n - 1 : 0)) >> 3;
    if (mode == 1) {
        busy = 1;
        n_access[my_tid]++;
        for (; g <= g2; g++) accset_add(&acc[my_tid], g, fl);
        busy = 0;
    } else if (mode == 2 && nconf) {
        for (; g <= g2; g++) if (in_conf(g)) { sched_point(); break; }
    }
}

/* ---------------------------------------------------------------- TSan callbacks */
void __tsan_init(void) {}
void __tsan_func_entry(void *pc) { (void)pc; in_native++; }
void __tsan_func_exit(void) { if (in_native > 0) in_native--; }
#define RW(N) \
  void __tsan_read##N(void *a) { on_access((uintptr_t)a, N, F_READ); } \
  void __tsan_write##N(void *a) { on_access((uintptr_t)a, N, F_WRITE); } \
  void __tsan_unaligned_read##N(void *a) { on_access((uintptr_t)a, N, F_READ); } \
  void __tsan_unaligned_write##N(void *a) { on_access((uintptr_t)a, N, F_WRITE); }
RW(1) RW(2) RW(4) RW(8) RW(16)
void __tsan_read_range(void *a, unsigned long n) { on_access((uintptr_t)a, n, F_READ); }
void __tsan_write_range(void *a, unsigned long n) { on_access((uintptr_t)a, n, F_WRITE); }
void __tsan_vptr_update(void **v, void *n) { (void)v; (void)n; }
void __tsan_vptr_read(void **v) { (void)v; }
void __tsan_ignore_thread_begin(void) {}
void __tsan_ignore_thread_end(void) {}

/* mem* called from instrumented code: clang 14 lowers the intrinsics to plain libc calls, which the
 * extensions' link step redirects here with -Wl,--wrap (so only the library's own calls are seen). */
void *__wrap_memcpy(void *d, const void *s, size_t n)
{
    if (n) { on_access((uintptr_t)s, n, F_READ); on_access((uintptr_t)d, n, F_WRITE); }
    return memcpy(d, s, n);
}
void *__wrap_memmove(void *d, const void *s, size_t n)
{
    if (n) { on_access((uintptr_t)s, n, F_READ); on_access((uintptr_t)d, n, F_WRITE); }
    return memmove(d, s, n);
}
void *__wrap_memset(void *d, int c, size_t n)
{
    if (n) on_access((uintptr_t)d, n, F_WRITE);
    return memset(d, c, n);
}

/* ---------------------------------------------------------------- control API (ctypes) */
void vs_set_mode(int m) { mode = m; }
int vs_get_mode(void) { return mode; }

void vs_register(int tid)
{
    pthread_attr_t at; void *sa = 0; size_t ss = 0;
    if (pthread_getattr_np(pthread_self(), &at) == 0) {
        pthread_attr_getstack(&at, &sa, &ss);
        pthread_attr_destroy(&at);
    }
    stack_lo = (uintptr_t)sa; stack_hi = (uintptr_t)sa + ss;
    in_native = 0;
    pthread_mutex_lock(&mu);
    registered[tid] = 1; finished[tid] = 0;
    pthread_mutex_unlock(&mu);
    my_tid = tid;
}

void vs_unregister(void)
{
    int me = my_tid;
    if (me < 0) return;
    my_tid = -1;
    pthread_mutex_lock(&mu);
    finished[me] = 1;
    if (baton == me) { baton = 1 - me; pthread_cond_broadcast(&cv); }
    pthread_mutex_unlock(&mu);
}

void vs_reset_logs(void)
{
    int t;
    for (t = 0; t < MAXT; t++) {
        if (acc[t].keys) { memset(acc[t].keys, 0, acc[t].cap * sizeof(uint64_t)); memset(acc[t].flags, 0, acc[t].cap); }
        acc[t].n = 0; alog[t].n = 0; n_access[t] = 0;
    }
}

long vs_log_size(int t) { return (long)acc[t].n; }
long vs_log_get(int t, uint64_t *g, uint8_t *f, long cap)
{
    size_t i; long k = 0;
    for (i = 0; i < acc[t].cap && k < cap; i++) if (acc[t].keys[i]) { g[k] = acc[t].keys[i]; f[k] = acc[t].flags[i]; k++; }
    return k;
}
long vs_alloc_count(int t) { return (long)alog[t].n; }
long vs_alloc_get(int t, uint64_t *p, uint64_t *s, long cap)
{
    long i, n = (long)alog[t].n < cap ? (long)alog[t].n : cap;
    for (i = 0; i < n; i++) { p[i] = alog[t].ptr[i]; s[i] = alog[t].size[i]; }
    return n;
}
uint64_t vs_access_count(int t) { return n_access[t]; }

void vs_set_conflicts(const uint64_t *g, long n)   /* must be sorted ascending */
{
    if (conf) real_free(conf);
    conf = 0; nconf = 0;
    if (n > 0) { conf = real_malloc((size_t)n * sizeof *conf); memcpy(conf, g, (size_t)n * sizeof *conf); nconf = (size_t)n; }
}

void vs_begin(int start_tid, const long *p, int n)
{
    int i;
    pthread_mutex_lock(&mu);
    baton = start_tid; gstep = 0; switches = 0; ntrace = 0;
    nplan = n > 8 ? 8 : n;
    for (i = 0; i < nplan; i++) plan[i] = p[i];
    for (i = 0; i < MAXT; i++) { finished[i] = 0; registered[i] = 0; npoints[i] = 0; }
    pthread_mutex_unlock(&mu);
}
long vs_steps(void) { return gstep; }
long vs_switches(void) { return switches; }
long vs_points(int t) { return npoints[t]; }
long vs_trace(long *out, long cap) { long i, n = ntrace < cap ? ntrace : cap; for (i = 0; i < n; i++) out[i] = trace_tid[i]; return n; }
int vs_present(void) { return 1; }
