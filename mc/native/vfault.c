/* Allocation-failure seam of the C17 fault exploration.
 *
 * The extensions of the "fault" build flavour call __wrap_malloc/__wrap_calloc/... instead of the C library's
 * allocators (ld --wrap at their link step).  This library is LD_PRELOADed (after the ASan runtime) and decides,
 * for every allocation the library's native code asks for, whether it succeeds:
 *     vf_arm(at, mode)   mode 1: only allocation number `at` fails; mode 2: number `at` and all later ones fail;
 *                        mode 3: count only.  Numbering starts at 1 with the next allocation.
 *     vf_disarm()        -> number of allocations requested since vf_arm
 *     vf_failed()        -> how many of them were refused
 * A refused allocation returns NULL (posix_memalign: ENOMEM) exactly as the C library does when memory is exhausted.
 */
#include <stdlib.h>
#include <errno.h>
#include <malloc.h>

static volatile long vf_n = 0, vf_at = 0, vf_nfailed = 0;
static volatile int vf_mode = 0;

static int refuse(void)
{
    long n;
    if (!vf_mode)
        return 0;
    n = ++vf_n;
    if ((vf_mode == 1 && n == vf_at) || (vf_mode == 2 && n >= vf_at)) {
        vf_nfailed++;
        return 1;
    }
    return 0;
}

void vf_arm(long at, int mode) { vf_n = 0; vf_nfailed = 0; vf_at = at; vf_mode = mode; }
long vf_disarm(void) { vf_mode = 0; return vf_n; }
long vf_failed(void) { return vf_nfailed; }

void *__wrap_malloc(size_t n) { if (refuse()) { errno = ENOMEM; return NULL; } return malloc(n); }
void *__wrap_calloc(size_t a, size_t b) { if (refuse()) { errno = ENOMEM; return NULL; } return calloc(a, b); }
void *__wrap_realloc(void *p, size_t n) { if (refuse()) { errno = ENOMEM; return NULL; } return realloc(p, n); }
void *__wrap_memalign(size_t a, size_t n) { if (refuse()) { errno = ENOMEM; return NULL; } return memalign(a, n); }
int __wrap_posix_memalign(void **p, size_t a, size_t n) { if (refuse()) return ENOMEM; return posix_memalign(p, a, n); }
