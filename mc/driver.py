"""Runs one property driver inside the scratch environment.

usage: python -m mc.driver run    <prop> <tier> <scratch> <out.json>
       python -m mc.driver replay <prop> <scratch> <case.json> <out.json>
"""
import importlib
import json
import os
import sys
import time
import traceback

from .common import Acc, Ctx, SEED, unjson

BUDGET = {"quick": 240, "thorough": 3000}


def _assert_scratch(scratch):
    import Crypto
    f = os.path.realpath(Crypto.__file__)
    if not f.startswith(os.path.realpath(scratch) + os.sep):
        raise SystemExit("harness error: Crypto imported from %s, not from %s" % (f, scratch))


def main():
    mode = sys.argv[1]
    if mode == "run":
        prop, tier, scratch, out = sys.argv[2:6]
        _assert_scratch(scratch)
        mod = importlib.import_module("mc.props." + prop.lower())
        budget = float(os.environ.get("VERIF_BUDGET_S", 0) or
                       getattr(mod, "BUDGET", BUDGET).get(tier, BUDGET[tier]))
        ctx = Ctx(prop, tier, SEED, scratch, budget)
        t0 = time.time()
        try:
            mod.run(ctx)
        except BaseException:
            ctx.acc.error("driver crashed:\n" + traceback.format_exc())
        acc = ctx.acc
        res = {
            "level": getattr(mod, "LEVEL", "exploration"),
            "rule": getattr(mod, "RULE", ""),
            "counters": {k: (round(v, 2) if isinstance(v, float) else v)
                         for k, v in sorted(acc.n.items())},
            "distinct": {k: len(v) for k, v in sorted(acc.distinct.items())},
            "samples": acc.samples,
            "violations": [dict(v, cases=acc.viol_count.get(k, 1))
                           for k, v in sorted(acc.viol.items())],
            "observations": acc.obs,
            "caps": acc.caps,
            "errors": acc.errors,
            "assumptions": ctx.assumptions,
            "coverage_extra": ctx.coverage_extra,
            "driver_wall_s": round(time.time() - t0, 2),
        }
        with open(out, "w") as fh:
            json.dump(res, fh)
    elif mode == "replay":
        prop, scratch, casef, out = sys.argv[2:6]
        _assert_scratch(scratch)
        mod = importlib.import_module("mc.props." + prop.lower())
        rec = json.load(open(casef))
        acc = Acc()
        try:
            mod.replay(unjson(rec["case"]), acc)
        except BaseException:
            acc.error("replay crashed:\n" + traceback.format_exc())
        with open(out, "w") as fh:
            json.dump({"keys": sorted(acc.viol), "errors": acc.errors,
                       "what": {k: v["what"] for k, v in acc.viol.items()}}, fh)
    else:
        raise SystemExit("bad mode")


if __name__ == "__main__":
    main()
