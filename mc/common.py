"""Shared plumbing for the property drivers: accumulators, violation records,
JSON-able case descriptors, parallel map, the seeded value alphabet."""
import hashlib
import itertools
import json
import multiprocessing
import os
import sys
import time
import traceback


# --------------------------------------------------------------------------
# JSON-able case descriptors (bytes <-> {"hex":..}), used for replay files
# --------------------------------------------------------------------------
def jsonable(x):
    if isinstance(x, (bytes, bytearray, memoryview)):
        return {"hex": bytes(x).hex()}
    if isinstance(x, bool) or x is None or isinstance(x, (str, float)):
        return x
    if isinstance(x, int):
        if -2**53 < x < 2**53:
            return x
        return {"int": str(x)}
    if isinstance(x, dict):
        return {str(k): jsonable(v) for k, v in x.items()}
    if isinstance(x, (list, tuple)):
        return [jsonable(v) for v in x]
    if isinstance(x, (set, frozenset)):
        return [jsonable(v) for v in sorted(x, key=repr)]
    return {"repr": repr(x)}


def unjson(x):
    if isinstance(x, dict):
        if set(x) == {"hex"}:
            return bytes.fromhex(x["hex"])
        if set(x) == {"int"}:
            return int(x["int"])
        return {k: unjson(v) for k, v in x.items()}
    if isinstance(x, list):
        return [unjson(v) for v in x]
    return x


def short(x, n=48):
    """Short printable rendering used in 'what' strings and samples."""
    if isinstance(x, (bytes, bytearray, memoryview)):
        b = bytes(x)
        if len(b) <= n:
            return b.hex()
        return "%s..(%d bytes)" % (b[:n // 2].hex(), len(b))
    if isinstance(x, int) and not isinstance(x, bool) and x.bit_length() > 80:
        return "int(%d bits, 0x%x..)" % (x.bit_length(), x >> (x.bit_length() - 32))
    if isinstance(x, (list, tuple)):
        return "[" + ",".join(short(v, n) for v in x) + "]"
    if isinstance(x, dict):
        return "{" + ",".join("%s:%s" % (k, short(v, n)) for k, v in x.items()) + "}"
    r = repr(x)
    return r if len(r) <= 2 * n else r[:2 * n] + ".."


# --------------------------------------------------------------------------
# Value alphabet (DESIGN 2.4)
# --------------------------------------------------------------------------
SEED = int(os.environ.get("VERIF_SEED", "0") or 0)


def seeded(label, n, seed=None):
    s = SEED if seed is None else seed
    return hashlib.shake_256(b"verif|%d|%s" % (s, label.encode()
                             if isinstance(label, str) else label)).digest(n)


def seeded_int(label, bits, seed=None):
    v = int.from_bytes(seeded(label, (bits + 7) // 8, seed), "big")
    return v >> ((-bits) % 8) if bits % 8 else v


def value_alphabet(label, n):
    """zero, ones, ascending, seeded  (of length n)"""
    return [bytes(n), b"\xff" * n, bytes(i & 255 for i in range(n)), seeded(label, n)]


def asc(n, start=0):
    return bytes((start + i) & 255 for i in range(n))


# --------------------------------------------------------------------------
# Accumulator: counters, distinct sets, samples, violations, observations
# --------------------------------------------------------------------------
class Acc:
    MAX_SAMPLES = 6
    MAX_VIOL_PER_KEY = 1

    def __init__(self):
        self.n = {}            # counters
        self.distinct = {}     # name -> set of hashable
        self.samples = []
        self.viol = {}         # key -> record (first = smallest, alphabets are simplest-first)
        self.viol_count = {}   # key -> number of failing cases
        self.obs = {}          # observation text -> count
        self.caps = []
        self.errors = []       # harness errors

    def count(self, name, k=1):
        self.n[name] = self.n.get(name, 0) + k

    def seen(self, name, item):
        s = self.distinct.get(name)
        if s is None:
            s = self.distinct[name] = set()
        s.add(item)

    def sample(self, s):
        if len(self.samples) < self.MAX_SAMPLES:
            self.samples.append(jsonable(s))

    def violation(self, key, what, case, script=None, size=None):
        """`size` (optional, smaller = simpler) lets merges keep the simplest counter-example per key."""
        self.viol_count[key] = self.viol_count.get(key, 0) + 1
        old = self.viol.get(key)
        if old is None or (size is not None and old.get("size") is not None and size < old["size"]):
            self.viol[key] = {"key": key, "what": what, "case": jsonable(case),
                              "script": script, "size": size}

    def observe(self, text):
        self.obs[text] = self.obs.get(text, 0) + 1

    def cap(self, text):
        if text not in self.caps:
            self.caps.append(text)

    def error(self, text):
        self.errors.append(text)

    def merge(self, o):
        for k, v in o.n.items():
            self.n[k] = self.n.get(k, 0) + v
        for k, v in o.distinct.items():
            self.distinct.setdefault(k, set()).update(v)
        for s in o.samples:
            if len(self.samples) < self.MAX_SAMPLES:
                self.samples.append(s)
        for k, v in o.viol.items():
            old = self.viol.get(k)
            if old is None or (v.get("size") is not None and old.get("size") is not None
                               and v["size"] < old["size"]):
                self.viol[k] = v
        for k, v in o.viol_count.items():
            self.viol_count[k] = self.viol_count.get(k, 0) + v
        for k, v in o.obs.items():
            self.obs[k] = self.obs.get(k, 0) + v
        for c in o.caps:
            self.cap(c)
        self.errors.extend(o.errors)
        return self


# --------------------------------------------------------------------------
# Parallel map over shards.  Workers are forked from the driver process (which
# already has the scratch tree first on sys.path); each shard returns an Acc.
# --------------------------------------------------------------------------
def _run_shard(args):
    fn, shard, idx = args
    t0 = time.time()
    try:
        acc = fn(shard)
        if acc is None:
            acc = Acc()
            acc.error("shard %r returned nothing" % (idx,))
    except BaseException:
        acc = Acc()
        acc.error("shard %s crashed in harness:\n%s" % (short(shard), traceback.format_exc()))
    acc.count("_shards")
    acc.n["_cpu_s"] = acc.n.get("_cpu_s", 0) + (time.time() - t0)
    return acc


def _run_isolated(fn, shard, idx):
    """run one shard in its own forked process (used after a pool worker died, to find the culprit)"""
    ctx = multiprocessing.get_context("fork")
    r, w = ctx.Pipe(duplex=False)

    def child():
        try:
            w.send(_run_shard((fn, shard, idx)))
        finally:
            w.close()
    p = ctx.Process(target=child)
    p.start()
    w.close()
    res = None
    try:
        if r.poll(3600):
            res = r.recv()
    except (EOFError, OSError):
        res = None
    p.join(10)
    if p.is_alive():
        p.kill()
    if res is None:
        res = Acc()
        res.error("worker process died (exit code %s) while running shard %s: a crash in native code or the harness"
                  % (p.exitcode, short(shard, 60)))
    return res


def pmap(fn, shards, workers=None, acc=None):
    shards = list(shards)
    acc = acc if acc is not None else Acc()
    workers = workers or int(os.environ.get("VERIF_WORKERS", "16"))
    if workers <= 1 or len(shards) <= 1:
        for i, s in enumerate(shards):
            acc.merge(_run_shard((fn, s, i)))
        return acc
    import concurrent.futures as cf
    from concurrent.futures.process import BrokenProcessPool
    ctx = multiprocessing.get_context("fork")
    done = set()
    try:
        with cf.ProcessPoolExecutor(max_workers=min(workers, len(shards)), mp_context=ctx) as ex:
            futs = {ex.submit(_run_shard, (fn, s, i)): i for i, s in enumerate(shards)}
            for f in cf.as_completed(futs):
                acc.merge(f.result())
                done.add(futs[f])
    except BrokenProcessPool:
        # a worker died (segfault/abort): re-run every unfinished shard in its own process so that the
        # culprit is identified and the others still count
        for i, s in enumerate(shards):
            if i not in done:
                acc.merge(_run_isolated(fn, s, i))
    return acc


def chunks(seq, n):
    """Split a list into n nearly equal interleaved shards (deterministic)."""
    seq = list(seq)
    n = max(1, min(n, len(seq)))
    return [seq[i::n] for i in range(n)]


# --------------------------------------------------------------------------
# Driver context
# --------------------------------------------------------------------------
class Ctx:
    def __init__(self, prop, tier, seed, scratch, budget_s):
        self.prop = prop
        self.tier = tier
        self.seed = seed
        self.scratch = scratch
        self.t0 = time.time()
        self.budget_s = budget_s
        self.acc = Acc()
        self.assumptions = []
        self.coverage_extra = {}
        self.workers = int(os.environ.get("VERIF_WORKERS", "16"))

    @property
    def quick(self):
        return self.tier == "quick"

    def time_left(self):
        return self.budget_s - (time.time() - self.t0)

    def pmap(self, fn, shards):
        return pmap(fn, shards, self.workers, self.acc)

    def require(self, cond, msg):
        """Vacuity guard: failing it is a harness error, never a verdict."""
        if not cond:
            self.acc.error("vacuity guard failed: " + msg)

    def assume(self, text):
        if text not in self.assumptions:
            self.assumptions.append(text)


def exc_site(e, root="Crypto"):
    """Innermost frame inside the library for an exception: 'module.function'."""
    tb = e.__traceback__
    site = None
    while tb is not None:
        co = tb.tb_frame.f_code
        fn = co.co_filename
        if "/%s/" % root in fn and "/SelfTest/" not in fn:
            mod = fn.split("/%s/" % root, 1)[1].rsplit(".", 1)[0].replace("/", ".")
            site = "%s.%s" % (mod, co.co_name)
        tb = tb.tb_next
    return site or "?"


def outcome(fn, *a, **kw):
    """Run fn, return ('ok', value) or ('exc', ExceptionClassName, exception)."""
    try:
        return ("ok", fn(*a, **kw))
    except Exception as e:   # noqa
        return ("exc", type(e).__name__, e)
