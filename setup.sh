#!/bin/bash
# Offline set-up: nothing to install. Self-tests the reference models (a wrong oracle must fail
# loudly here, never as a VIOLATION) and compiles the native scheduling shim if present.
set -e
cd "$(dirname "$0")"
export PYTHONDONTWRITEBYTECODE=1
for m in aes des blowfish rc4 chacha modes keccak md kdf ec hpke nt rsa dsa der gf128; do
  /venv/bin/python -m mc.ref.$m >/dev/null || { echo "reference self-test failed: $m"; exit 1; }
done
if [ -f mc/native/Makefile ]; then make -s -C mc/native; fi
echo "setup ok"
